"""C51 — escaped binary text converts back to the same bytes.

Generator: (a) exhaustive enumeration of all byte strings of length <= 2 (65 793) x 4 option combinations
(sharded), (b) Hypothesis byte strings biased to backslashes, quotes, \\n\\r\\t, and escape look-alikes.
Oracle: round trip escaped_str_to_bytes(bytes_to_escaped_str(b, ks, esq)) == b; the escaped text contains no
Unicode Cc character except \\t \\n \\r, and those only when keep_spacing is set.
"""
import itertools
import unicodedata

from hypothesis import strategies as st

from runner import hyp

PID = "C51"
LEVEL = "exploration"
RULE = ("all byte strings of length<=2 enumerated exhaustively x 4 option combos, plus Hypothesis byte strings "
        "(<=64 bytes) biased to backslash/quote/control/escape look-alikes; non-trivial = input contains a "
        "backslash, quote or control byte; distinct by (bytes, options)")
ASSUMPTIONS = ["round trip is checked through the public functions only"]
QUICK_N = 170_000
THOROUGH_N = 6_000_000

_special = st.sampled_from([b"\\", b"'", b'"', b"\n", b"\r", b"\t", b"\\n", b"\\x41", b"\\'", b"\\\\", b"\x00",
                            b"\x1b", b"\x7f", b"\x80", b"\xff", b"x", b"n", b"r", b"t", b"\\\n", b"\\\\n"])
_piece = st.one_of(_special, st.binary(max_size=4))


def strategy(ctx):
    return st.tuples(st.lists(_piece, max_size=16).map(b"".join), st.booleans(), st.booleans())


def check_case(case, ctx):
    from mitmproxy.utils import strutils
    b, ks, esq = case
    try:
        s = strutils.bytes_to_escaped_str(b, ks, esq)
        back = strutils.escaped_str_to_bytes(s)
    except Exception as e:
        ctx.crash(e)
        return
    if any(c in b"\\'\"" or c < 32 or c >= 127 for c in b):
        ctx.nt((b, ks, esq), "special")
    else:
        ctx.cls("plain")
    if back != b:
        ctx.fail("roundtrip:ks=%s,esq=%s" % (ks, esq), "escaped=%r back=%r" % (s, back))
    allowed = "\t\n\r" if ks else ""
    bad = [c for c in s if unicodedata.category(c) == "Cc" and c not in allowed]
    if bad:
        ctx.fail("raw-control:ks=%s" % ks, "escaped=%r contains %r" % (s, bad[:3]))
    if not isinstance(s, str):
        ctx.fail("type", repr(type(s)))


def run(ctx):
    # (a) exhaustive part, sharded by first byte
    n = 0
    allb = [b""] + [bytes([i]) for i in range(256)]
    for i in range(256):
        if i % ctx.nshards != ctx.shard:
            continue
        for j in range(256):
            allb.append(bytes([i, j]))
    if ctx.shard != 0:
        allb = allb[257:]
    for b in allb:
        for ks, esq in itertools.product((False, True), repeat=2):
            ctx.cur_case = [b, ks, esq]
            ctx.ev()
            check_case(ctx.cur_case, ctx)
    ctx.extra["exhaustive_len_le_2"] = True
    ctx.sample([b"\\n", True, False])
    # (b) random part
    hyp(ctx, strategy(ctx), check_case, ctx.n(QUICK_N, THOROUGH_N))
