"""C29 — raw TCP and UDP relaying is exact and each flow ends once (fault enumeration).

The real TCPLayer / UDPLayer is driven through the sans-io driver.  A case is a *script*: connect outcome
(already connected / succeeds / fails), a list of operations (data from either peer with an optional addon edit,
injected messages, read-side EOF ("half"), cancellation ("full") of either connection, release of a held blocking
command) and which blocking commands (start hook, connect, message hooks, end hook) are withheld for a while.

Oracle = an independent sequential reference model of a relay written from the property statement:
  * every message is recorded with the (edited) content and forwarded once, in order, to the other peer as long as
    that peer can still be written to (peer not gone, proxy has not propagated a FIN to it);
  * EOF of one peer while the other direction is alive => half-close (FIN) of the other peer, never a full close;
  * the flow ends (tcp_end/udp_end) when both read sides are finished (UDP: when either side closes), or errors
    when the connect fails; exactly one of the two hooks; nothing is recorded or sent afterwards.
The model is compared with the layer's observable behaviour: recorded flow.messages, bytes per connection,
effective close transitions per connection, hook-name sequence.

Part (a) enumerates exhaustively all placements of {none, EOF, cancel} x {client, server} x connect outcome x
one optional injection x one optional withheld command over a fixed 4-message ping-pong script (sharded).
Part (b) is Hypothesis generation of longer scripts with arbitrary contents.
"""
import collections
import itertools

from hypothesis import strategies as st

from runner import HarnessError, hyp

PID = "C29"
LEVEL = "fault_enumeration"
RULE = ("(c) end-to-end on the asyncio simulator: real ProxyConnectionHandler + TCPLayer over fake sockets, generated "
        "token scripts where each peer sends EOF at a generated point (one half-closes while the other keeps sending), "
        "slow tcp_message hooks, connect delay, timer overshoot; non-trivial = data sent after the other peer's EOF. "
        "(a) exhaustive: 4-message ping-pong script x every placement of {none,EOF,cancel} for client and server "
        "(both orders on ties) x connect {pre,ok,fail} x <=1 injection (position, direction) x <=1 withheld blocking "
        "command (which one, for how many events), TCP and UDP; (b) Hypothesis scripts of <=14 ops with arbitrary "
        "contents/edits/injections/holds. non-trivial = a close (EOF/cancel) followed by later traffic, or an "
        "injection, or an event delivered while a blocking command is withheld, or a connect failure with queued "
        "data; distinct by script shape (contents abstracted to lengths 0/1/n)")
ASSUMPTIONS = [
    "lib/driver.py mirrors proxy/server.py: connection state is changed when the close is observed, commands to "
    "closed connections are dropped, a proxy-initiated full close reports ConnectionClosed once",
    "a peer sends no data after its own EOF/cancel (a real socket cannot)",
    "injection into a direction whose destination already got our FIN is not judged (message is recorded, cannot "
    "be delivered)",
]
TECHNIQUE = "exhaustive fault/close-order enumeration + Hypothesis op scripts vs. sequential relay model"
LEVEL_TEXT = ("All close/half-close/cancel orders, connect outcomes, single injections and single withheld hooks "
              "over a 4-message script are enumerated completely for TCP and UDP; longer scripts are sampled.")
LEVEL_NOTE = "trusts lib/driver.py's model of server.py command handling and the reference relay model in this file"
QUICK_N, THOROUGH_N = 30_000, 3_000_000
E2E_QUICK_N, E2E_THOROUGH_N = 6_000, 300_000

C, S = 0, 1  # sides


# ------------------------------------------------------------------------------------------ reference model
class Model:
    """Sequential relay specification.  Events are processed FIFO; processing stops while a blocking command is
    withheld."""

    def __init__(self, proto, has_flow, connect):
        self.proto, self.has_flow, self.connect = proto, has_flow, connect
        self.q = collections.deque()
        self.cont = None  # suspended generator (waiting for a withheld command)
        self.waiting = None  # kind of the command we wait for
        self.phase = "start"
        self.r = [True, connect == "pre"]  # observation-time socket state: peer may still send
        self.w = [True, connect == "pre"]  # observation-time socket state: we may still write
        self.fin = [False, False]  # the proxy closed its write side
        self.eofp = [False, False]  # close event processed by the relay
        self.hooks = []
        self.recorded = []  # (from_client, content)
        self.delivered = [[], []]  # per destination side: contents actually written
        self.undeliverable = [[], []]  # per destination: (content, reason)
        self.closes = [[], []]  # per side: effective transitions "half" / "full"
        self.error = False
        self.opened = connect == "pre"
        self.hazard = False  # input class: a close is processed while the *other* side's close is observed but still
        #                      queued behind data (classifier for failure buckets only, not part of the oracle)

    # -- observation-time facts (what the socket layer knows immediately)
    def observe_close(self, side, full):
        self.r[side] = False
        if full or self.proto == "udp":
            self.w[side] = False

    # -- event intake
    def submit(self, ev, hold_plan):
        self.q.append(ev)
        self.run(hold_plan)

    def resume(self, hold_plan):
        g, self.cont, self.waiting = self.cont, None, None
        self._drive(g, hold_plan)
        self.run(hold_plan)

    def run(self, hold_plan):
        while self.cont is None and self.q:
            self._drive(self.proc(self.q.popleft()), hold_plan)

    def _drive(self, g, hold_plan):
        for blocking in g:
            if hold_plan(blocking):
                self.cont, self.waiting = g, blocking
                return

    # -- the specification proper
    def _close(self, side, half):
        """the proxy closes its write side towards `side` (half) or the whole socket (full).  Recorded as the
        observable transition: was the peer's read side still alive, and did the proxy kill it."""
        if not self.r[side] and not self.w[side]:
            return  # socket already finished
        if half:
            if not self.w[side]:
                return
            self.w[side] = False
            self.fin[side] = True
            self.closes[side].append("fin" if self.r[side] else "finish")
        else:
            self.closes[side].append("kill" if self.r[side] else "finish")
            self.w[side] = False
            self.r[side] = False
            self.fin[side] = True

    def proc(self, ev):
        if self.phase == "done":
            return
        kind = ev[0]
        if kind == "start":
            if self.has_flow:
                self.hooks.append("start")
                yield ("hook", "start", None)
            if self.connect != "pre":
                yield ("open",)
                if self.connect == "fail":
                    if self.has_flow:
                        self.error = True
                        self.hooks.append("error")
                        self.phase = "done"
                        yield ("hook", "error", None)
                    self._close(C, False)
                    self.phase = "done"
                    return
                self.opened = True
                self.r[S] = self.w[S] = True
            self.phase = "relay"
        elif kind == "data":
            _, side, content, edit, idx = ev
            dst = 1 - side
            if self.has_flow:
                self.hooks.append("message")
                yield ("hook", "message", idx)
                if edit is not None:
                    content = edit
                self.recorded.append((side == C, content))
            if self.w[dst]:
                self.delivered[dst].append(content)
            else:
                self.undeliverable[dst].append((content, "fin-sent" if self.fin[dst] else "gone"))
        elif kind == "closed":
            side = ev[1]
            dst = 1 - side
            self.eofp[side] = True
            if self.proto == "udp":
                self.phase = "done"
                self._close(dst, False)
                if self.has_flow:
                    self.hooks.append("end")
                    yield ("hook", "end", None)
            elif self.eofp[dst]:
                self.phase = "done"
                self._close(S, False)
                self._close(C, False)
                if self.has_flow:
                    self.hooks.append("end")
                    yield ("hook", "end", None)
            else:
                if not self.r[dst] and any(e[0] == "data" for e in self.q):
                    self.hazard = True
                self._close(dst, True)
        else:
            raise HarnessError(ev)


# ------------------------------------------------------------------------------------------ running a case
def _layer_classes(proto):
    if proto == "tcp":
        from mitmproxy import tcp
        from mitmproxy.proxy.layers.tcp import TCPLayer, TcpMessageInjected
        return TCPLayer, TcpMessageInjected, tcp.TCPMessage
    from mitmproxy import udp
    from mitmproxy.proxy.layers.udp import UDPLayer, UdpMessageInjected
    return UDPLayer, UdpMessageInjected, udp.UDPMessage


def _shape(case):
    def ln(b):
        return None if b is None else min(len(b), 2)
    ops = []
    for op in case["ops"]:
        if op[0] in ("d", "i"):
            ops.append((op[0], op[1], ln(op[2]), ln(op[3]), bool(op[4])))
        else:
            ops.append(tuple(op))
    return (case["proto"], case["ignore"], case["connect"], case["hold_start"], case["hold_open"], case["hold_end"],
            tuple(ops))


def check_case(case, ctx):
    if case.get("part") == "E":
        # end-to-end part: real ConnectionHandler.server_event over fake streams on the simulator (lib/sim_relay.py)
        import sim_relay
        sim_relay.check_case(case, ctx)
        return
    import stream_harness as sh
    from mitmproxy.connection import ConnectionState
    from mitmproxy.proxy import commands

    proto, ignore, connect = case["proto"], bool(case["ignore"]), case["connect"]
    ops = case["ops"]
    Layer, Injected, Message = _layer_classes(proto)
    has_flow = not ignore

    pctx = sh.make_context(sh.cached_options(), transport=proto)
    server = pctx.server
    server.address = ("server.test", 7)
    server.transport_protocol = proto
    if connect == "pre":
        sh.open_server(server, ("server.test", 7), proto)
    lay = Layer(pctx, ignore=ignore)
    conns = [pctx.client, server]

    msg_ops = []  # every data/inject op in submission order: (content, edit, hold)
    pending_edit = {}

    def hold_plan_real(cmd):
        if isinstance(cmd, commands.OpenConnection):
            return case["hold_open"]
        n = cmd.name
        if n.endswith("_start"):
            return case["hold_start"]
        if n.endswith("_end") or n.endswith("_error"):
            return case["hold_end"]
        return None

    seen_msg_hooks = [0]

    def hook_policy(cmd):
        if cmd.name.endswith("_message"):
            k = seen_msg_hooks[0]
            seen_msg_hooks[0] += 1
            if k >= len(msg_ops):
                return None  # more message hooks than messages: reported by the hook-sequence comparison
            content, edit, hold = msg_ops[k]
            flow = cmd.flow
            if hold:
                pending_edit[id(cmd)] = (flow, edit)
                return sh.HOLD
            if edit is not None and flow.messages:
                flow.messages[-1].content = edit
            return None
        return sh.HOLD if hold_plan_real(cmd) else None

    def conn_policy(cmd):
        if case["hold_open"]:
            return sh.HOLD
        return None if connect == "ok" else "connect failed (generated)"

    def before_release(cmd):
        if isinstance(cmd, commands.OpenConnection):
            return None if connect == "ok" else "connect failed (generated)"
        pe = pending_edit.pop(id(cmd), None)
        if pe and pe[1] is not None and pe[0].messages:
            pe[0].messages[-1].content = pe[1]
        return None

    d = sh.StreamDriver(pctx, lay, hook_policy=hook_policy, conn_policy=conn_policy)

    model = Model(proto, has_flow, connect)

    def hold_plan_model(b):
        if b[0] == "open":
            return bool(case["hold_open"])
        if b[1] == "start":
            return bool(case["hold_start"])
        if b[1] in ("end", "error"):
            return bool(case["hold_end"])
        return bool(msg_ops[b[2]][2])

    closed_side = [False, False]
    nontrivial = set()
    try:
        d.start()
        model.submit(("start",), hold_plan_model)
        for op in ops:
            if d.crashed is not None:
                break
            k = op[0]
            if k in ("d", "i"):
                _, side, content, edit, hold = op
                if k == "d" and not (conns[side].state & ConnectionState.CAN_READ):
                    continue  # a socket that is closed / not yet connected delivers nothing
                if k == "i" and not has_flow:
                    continue
                if any(closed_side) and not all(closed_side):
                    nontrivial.add("traffic-after-close")
                if k == "i":
                    nontrivial.add("inject")
                if d.held:
                    nontrivial.add("event-while-held")
                if connect == "fail":
                    nontrivial.add("data-vs-connect-failure")
                idx = len(msg_ops)
                msg_ops.append((content, edit, bool(hold) and has_flow))
                if k == "d":
                    d.recv(conns[side], content)
                else:
                    d.feed(Injected(lay.flow, Message(side == C, content)))
                model.submit(("data", side, content, edit, idx), hold_plan_model)
            elif k in ("h", "x"):
                side = op[1]
                if closed_side[side]:
                    continue
                if side == S and not model.opened:
                    continue  # no socket yet
                if conns[side].state is ConnectionState.CLOSED:
                    continue  # already torn down by the proxy: no reader left to observe anything
                if d.held:
                    nontrivial.add("event-while-held")
                closed_side[side] = True
                full = k == "x"
                d.close(conns[side], full=full)
                model.observe_close(side, full)
                model.submit(("closed", side), hold_plan_model)
            elif k == "r":
                if d.held:
                    if model.cont is None:
                        _blocked_mismatch(ctx, model, proto, "layer waits for %r, model is not blocked" % (d.held[0],))
                        return
                    cmd = d.held[0]
                    d.release(cmd, before_release(cmd))
                    model.resume(hold_plan_model)
            else:
                raise HarnessError("bad op %r" % (op,))
        # drain: release everything that is still withheld
        guard = 0
        while d.held and d.crashed is None:
            guard += 1
            if guard > 100:
                raise HarnessError("drain does not terminate")
            if model.cont is None:
                _blocked_mismatch(ctx, model, proto, "layer waits for %r, model is not blocked" % (d.held[0],))
                return
            cmd = d.held[0]
            d.release(cmd, before_release(cmd))
            model.resume(hold_plan_model)
    except HarnessError:
        raise
    if d.crashed is not None:
        ctx.fail(sh.crash_bucket(d.crashed) + ":" + proto, repr(d.crashed))
        return
    if model.cont is not None:
        _blocked_mismatch(ctx, model, proto, "model waits for %r but the layer issued no such blocking command" % (model.waiting,))
        return

    # ---- observe
    if nontrivial:
        ctx.nt(_shape(case), "+".join(sorted(nontrivial)) + ":" + proto)
    else:
        ctx.cls("plain:" + proto)
    ctx.cls("connect=" + connect)

    tag = proto + (":ignore" if ignore else "")
    if model.hazard:
        # input class of the repaired defect C29-queued-data-dropped-early-end (a close is processed while the other
        # side's close is already observed but still queued behind data); judged like every other case
        ctx.cls("close-overtakes-queued-data")
    _compare(ctx, d, model, lay, pctx, conns, proto, has_flow, tag, nontrivial)


def _blocked_mismatch(ctx, model, proto, msg):
    ctx.fail("blocking-command-mismatch:%s" % proto, msg)


def _compare(ctx, d, model, lay, pctx, conns, proto, has_flow, tag, nontrivial):
    from mitmproxy.connection import ConnectionState
    sent_after_end = []
    hooks = []
    end_pos = None
    for i, t in enumerate(d.trace):
        if t[0] == "hook":
            short = t[1].split("_", 1)[1]
            hooks.append(short)
            if short in ("end", "error") and end_pos is None:
                end_pos = i
        elif t[0] in ("send", "send-after-close") and end_pos is not None:
            sent_after_end.append(t)
    n_final = sum(1 for h in hooks if h in ("end", "error"))
    if n_final > 1:
        ctx.fail("end-hooks>1:" + tag, "hooks=%r" % hooks)
    if sent_after_end:
        ctx.fail("send-after-end:" + tag, "%r" % sent_after_end[:2])
    if hooks != model.hooks:
        # classify
        exp_final = [h for h in model.hooks if h in ("end", "error")]
        got_final = [h for h in hooks if h in ("end", "error")]
        if exp_final != got_final:
            ctx.fail("end-hook-missing-or-wrong:%s" % tag, "expected %r got %r" % (model.hooks, hooks))
        else:
            ctx.fail("hook-sequence:%s" % tag, "expected %r got %r" % (model.hooks, hooks))

    # recorded messages
    if has_flow:
        rec = [(m.from_client, bytes(m.content)) for m in lay.flow.messages]
        if rec != model.recorded:
            held_seen = "held" if "event-while-held" in nontrivial else "noheld"
            if len(rec) < len(model.recorded) and rec == model.recorded[:len(rec)]:
                ctx.fail("message-lost-unrecorded:%s:%s" % (tag, held_seen),
                         "recorded %d messages, expected %d; first missing %r" % (len(rec), len(model.recorded), model.recorded[len(rec)]))
            else:
                ctx.fail("recorded-mismatch:%s" % tag, "expected %r got %r" % (model.recorded[:6], rec[:6]))
        if model.error and lay.flow.error is None:
            ctx.fail("error-not-set:" + tag, "connect failed but flow.error is None")
        if not model.error and lay.flow.error is not None:
            ctx.fail("spurious-error:" + tag, repr(lay.flow.error))
        if model.phase == "done" and model.cont is None and "end" in model.hooks and lay.flow.live:
            ctx.fail("still-live-after-end:" + tag, "")

    # delivered bytes
    for side in (C, S):
        conn = conns[side]
        got = [bytes(x) for x in d.sent_chunks.get(conn, [])]
        exp = model.delivered[side]
        ok = (got == exp) if proto == "udp" else (b"".join(got) == b"".join(exp))
        if not ok:
            who = "to-client" if side == C else "to-server"
            gj, ej = b"".join(got), b"".join(exp)
            if ej.startswith(gj) and len(gj) < len(ej):
                kind = "lost"
            elif gj.startswith(ej):
                kind = "extra"
            else:
                kind = "changed"
            ctx.fail("relay-%s:%s:%s" % (kind, who, tag), "expected %r got %r (undeliverable per model: %r)" % (exp[:6], got[:6], model.undeliverable[side][:3]))
        for content, why in model.undeliverable[side]:
            ctx.cls("undeliverable:" + why)

    # effective close transitions per connection
    eff = [[], []]
    for t in d.trace:
        if t[0] == "close-eff":
            _, conn, half, before = t
            side = C if conn is pctx.client else S
            if before is ConnectionState.CLOSED:
                continue
            readable = bool(before & ConnectionState.CAN_READ)
            if half:
                if before & ConnectionState.CAN_WRITE:
                    eff[side].append("fin" if readable else "finish")
            else:
                eff[side].append("kill" if readable else "finish")
    for side in (C, S):
        who = "client" if side == C else "server"
        exp = model.closes[side]
        got = eff[side]
        if got != exp:
            if "fin" in exp and "fin" not in got:
                ctx.fail("half-close-not-propagated:%s:%s" % (who, tag), "expected %r got %r" % (exp, got))
            elif "kill" in got and "kill" not in exp:
                ctx.fail("premature-full-close:%s:%s" % (who, tag), "expected %r got %r" % (exp, got))
            elif len(got) < len(exp):
                ctx.fail("not-closed:%s:%s" % (who, tag), "expected %r got %r" % (exp, got))
            else:
                ctx.fail("close-sequence:%s:%s" % (who, tag), "expected %r got %r" % (exp, got))
        if "fin" in exp:
            ctx.cls("half-close-propagated")


# ------------------------------------------------------------------------------------------ generators
_content = st.one_of(st.binary(min_size=1, max_size=6), st.sampled_from([b"\x00", b"\r\n", b"A" * 70, b"\xff" * 3]),
                     st.binary(min_size=0, max_size=40))


def _op():
    data = st.tuples(st.sampled_from(["d", "d", "d", "i"]), st.integers(0, 1), _content,
                     st.one_of(st.none(), st.none(), _content), st.booleans())
    close = st.tuples(st.sampled_from(["h", "h", "x"]), st.integers(0, 1))
    rel = st.just(("r",))
    from stream_harness import weighted
    return weighted((5, data), (2, close), (2, rel))


def strategy(ctx):
    return st.fixed_dictionaries({
        "proto": st.sampled_from(["tcp", "tcp", "udp"]),
        "ignore": st.sampled_from([False, False, False, False, True]),
        "connect": st.sampled_from(["pre", "ok", "ok", "fail"]),
        "hold_start": st.sampled_from([False, False, True]),
        "hold_open": st.sampled_from([False, False, True]),
        "hold_end": st.sampled_from([False, False, True]),
        "ops": st.lists(_op(), min_size=1, max_size=14),
    })


def _enum_cases(proto):
    """all single-fault/close-order scripts over the ping-pong base script"""
    base = [(C, b"c1"), (S, b"s1"), (C, b"c2"), (S, b"s2")]
    n = len(base)
    close_choices = [None] + [(k, p) for k in ("h", "x") for p in range(n + 1)]
    inj_choices = [None] + [(p, side) for p in range(n + 1) for side in (C, S)]
    # withheld command: None | ("start"|"open"|"end", dur) | ("msg", idx, dur); released after `dur` further ops (or at the end)
    hold_choices = [None] + [(w, dur) for w in ("start", "open", "end") for dur in (1, 3, 99)] + \
                   [("msg%d" % i, dur) for i in range(3) for dur in (1, 2, 99)]
    for connect in ("pre", "ok", "fail"):
        for cc, sc in itertools.product(close_choices, close_choices):
            orders = (0, 1) if (cc and sc and cc[1] == sc[1]) else (0,)
            for order in orders:
                for inj in inj_choices:
                    for hold in hold_choices:
                        if hold and hold[0] == "open" and connect == "pre":
                            continue
                        yield (proto, connect, cc, sc, order, inj, hold)


def _build(spec):
    proto, connect, cc, sc, order, inj, hold = spec
    base = [(C, b"c1"), (S, b"s1"), (C, b"c2"), (S, b"s2")]
    slots = [[] for _ in range(len(base) + 1)]
    if inj:
        slots[inj[0]].append(["i", inj[1], b"INJ", None, False])
    closes = []
    if cc:
        closes.append((cc[1], [cc[0], C]))
    if sc:
        closes.append((sc[1], [sc[0], S]))
    if order:
        closes.reverse()
    for p, op in closes:
        slots[p].append(op)
    ops = []
    closed = [False, False]
    mi = 0
    for p in range(len(base) + 1):
        for op in slots[p]:
            ops.append(op)
            if op[0] in ("h", "x"):
                closed[op[1]] = True
        if p < len(base):
            side, content = base[p]
            if not closed[side]:
                edit = b"EDIT" + content if p == 2 else None
                ops.append(["d", side, content, edit, False])
    case = {"proto": proto, "ignore": False, "connect": connect, "hold_start": False, "hold_open": False,
            "hold_end": False, "ops": ops}
    if hold:
        what, dur = hold
        if what in ("start", "open", "end"):
            case["hold_" + what] = True
            # release after `dur` ops: start/open are issued before op 0; "end" whenever it comes (release at drain or by 'r')
            if what != "end" and dur < 99:
                ops.insert(min(dur, len(ops)), ["r"])
            elif what == "end" and dur < 99:
                ops.append(["r"])
        else:
            k = int(what[3:])
            seen = -1
            for i, op in enumerate(ops):
                if op[0] in ("d", "i"):
                    seen += 1
                    if seen == k:
                        op[4] = True
                        if dur < 99:
                            ops.insert(min(i + 1 + dur, len(ops)), ["r"])
                        break
    return case


def run(ctx):
    import os
    n = 0
    scale = float(os.environ.get("VERIF_SCALE", "1"))
    stride = max(1, int(round(1 / scale))) if scale < 1 else 1  # development aid only; default is the full enumeration
    for proto in ("tcp", "udp"):
        for i, spec in enumerate(_enum_cases(proto)):
            if i % ctx.nshards != ctx.shard or (i // ctx.nshards) % stride:
                continue
            case = _build(spec)
            ctx.cur_case = case
            ctx.ev()
            check_case(case, ctx)
            n += 1
    ctx.exhaustive = stride == 1
    ctx.extra["enumerated_scripts"] = n
    ctx.sample(_build(("tcp", "ok", ("h", 1), ("x", 3), 0, (2, S), ("msg1", 2))))
    # (c) end-to-end: the commands are executed by the real ConnectionHandler against simulated transports
    # (run before the long sampled part so that a wall-clock budget on a loaded machine never starves it)
    import sim_relay
    hyp(ctx, sim_relay.strategy(), check_case, ctx.n(E2E_QUICK_N, E2E_THOROUGH_N))
    hyp(ctx, strategy(ctx), check_case, ctx.n(QUICK_N, THOROUGH_N))
