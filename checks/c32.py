"""C32 -- message text round-trips for every content type.

Case = (message kind, Content-Type value built from a media type and an optional charset parameter, optional
Content-Encoding, text).  Texts are built from pieces: ASCII, Latin-1, CJK/astral characters, characters whose encodings
start with BOM-looking bytes, a leading U+FEFF, in-body charset declarations (<meta charset>, <?xml encoding?>, @charset)
naming various charsets, and surrogate-escaped bytes (always produced as bytes.decode("utf-8", "surrogateescape"), i.e.
exactly the strings mitmproxy itself hands out for undecodable bodies).

Oracle (round trip + header consequence):
  m.text = s must not raise; m.text == s afterwards.  For strings carrying surrogate-escaped bytes the strict getter is
  allowed to raise ValueError, then get_text(strict=False) must return s.
  If the charset declared before the assignment is unknown to Python or cannot encode s, the Content-Type now declares
  a charset (read with an independent parameter parser) that can.
Precondition (trusted base): the declared charset's Python codec itself round-trips s (some legacy codecs are not
injective, e.g. shift_jis maps U+00A5 to 0x5C); otherwise the case is only counted.
"""
import codecs
import re

import runner
from dmgen import canon, pick, small, surrogate_text, text, uni_text

PID = "C32"
LEVEL = "exploration"
TECHNIQUE = "seeded-PRNG structured text x content-type generation; set/get round trip + independent Content-Type reader"
RULE = ("texts assembled from <=6 pieces (ascii, latin-1, BMP, astral, BOM look-alikes, U+FEFF, in-body charset "
        "declarations, surrogate-escaped bytes) x 14 media types x 24 charset parameters x request/response x "
        "content-encoding; non-trivial = text is non-ASCII or carries a BOM-like prefix/in-body declaration; "
        "distinct by (media type, charset, kind, coding, text)")
ASSUMPTIONS = ["Python's codec for the declared charset round-trips the text (checked per case; lossy codecs are skipped)",
               "surrogate-escaped input is of the form bytes.decode('utf-8','surrogateescape')"]
LEVEL_TEXT = "randomised search over text/content-type combinations with an explicit round-trip oracle"
LEVEL_NOTE = "trusts CPython codecs"
QUICK_N, THOROUGH_N = 600_000, 6_000_000

TYPES = ["text/plain", "text/html", "application/xhtml+xml", "text/xml", "application/xml", "text/css",
         "application/json", "application/javascript", "text/javascript", "application/ld+json", "image/svg+xml",
         "application/octet-stream", None, "garbage"]
CHARSETS = [None, None, None, "utf-8", "utf8", "UTF-8", "latin-1", "iso-8859-1", "ISO-8859-1", "ascii", "us-ascii",
            "utf-16", "utf-16le", "utf-16be", "utf-32", "utf-32le", "utf-32be", "gb2312", "gbk", "gb18030", "cp1252",
            "windows-1251", "koi8-r", "iso-8859-15", "euc-jp", "big5", "x-unknown", "", '"utf-8"', "utf-8-sig"]
DECL_CHARSETS = ["utf-8", "latin-1", "iso-8859-1", "utf-16", "gb2312", "ascii", "windows-1252", "bogus", "UTF-8", "koi8-r"]

_SPECIAL = ["\ufeff", "\xff\xfe", "\xfe\xff", "\xef\xbb\xbf", "\x00\x00\xfe\xff", "\xff\xfe\x00\x00",
            "\ufffe", "\ufeff\x00", "\u20ac", "\xe9", "\u4e2d\u6587", "\U0001f600", "\r\n", "\x00", "\x7f",
            "\x80", "\xa5", "\u203e"]
_DECL_FORMS = ['<meta charset="%s">', "<meta charset=%s>", '<META http-equiv="Content-Type" content="text/html; charset=%s">',
               '<?xml version="1.0" encoding="%s"?>', "<?xml version='1.0' encoding='%s'?>", '@charset "%s";']
_ASCII = "".join(chr(c) for c in range(32, 127))
_LATIN = "".join(chr(c) for c in range(0xA0, 0x100))
_CODINGS = [None, None, None, "gzip", "br", "identity"]


# realistic markup in which "charset=" / "encoding=" / "@charset" occur OUTSIDE a genuine declaration: attributes of
# other elements, URLs, text content, a non-leading CSS rule -- optionally right after a <meta>/<?xml?> that declares nothing
_NODECL_HEAD = ['<meta name="viewport" content="width=device-width">', "<meta name=description content=x>",
                '<META NAME="robots" CONTENT="noindex">', '<meta property="og:title" content="t"/>', '<?xml version="1.0"?>',
                "<?xml version='1.1' standalone='yes'?>", "<html><head>", "a{color:red}", "/* c */", ""]
_NODECL_USE = ['<form accept-charset="%s">', '<script src="/a.js" charset="%s"></script>', "<link rel=stylesheet href=a.css charset=%s>",
               '<a href="/search?q=1&charset=%s">x</a>', "<p>charset=%s</p>", 'Content-Type: text/html; charset=%s',
               '<doc encoding="%s">', "<x encoding='%s'/>", "<p>encoding=%s</p>", ' @charset "%s";', '/* @charset "%s"; */',
               "<input name=charset value=%s>"]
_NODECL_SEP = ["", "", "\n", " ", "\r\n", "</head>"]


def _g_nodecl(rnd):
    return pick(rnd, _NODECL_HEAD) + pick(rnd, _NODECL_SEP) + pick(rnd, _NODECL_USE) % pick(rnd, DECL_CHARSETS)


def _g_piece(rnd):
    r = rnd.randrange(12)
    if r >= 10:
        return _g_nodecl(rnd)
    if r in (0, 1):
        return text(rnd, _ASCII, 0, 8)
    if r == 2:
        return text(rnd, _LATIN, 1, 4)
    if r in (3, 4, 5):
        return uni_text(rnd, 0, 5)
    if r in (6, 7):
        return pick(rnd, _SPECIAL)
    if r == 8:
        return pick(rnd, _DECL_FORMS) % pick(rnd, DECL_CHARSETS)
    return surrogate_text(rnd, 1, 6)


_PNAMES = ["charset", "charset", "charset", "Charset", "CHARSET", "charSet"]
_XPARAMS = ["foo=bar", "boundary=xyz", "q=0.5", 'title="a b"', "format=flowed", "x"]
_SEPS = ["; ", "; ", ";", " ; ", ";\t", " ;"]


def _g_spelling(rnd):
    """how the charset parameter is spelled inside the Content-Type value (all legal per RFC 9110 5.6.6 / 8.3.1:
    case-insensitive parameter name, token or quoted-string value, other parameters around it, OWS around ';')"""
    if rnd.random() < 0.4:
        return None                       # the plain "type/subtype; charset=x" form
    return [pick(rnd, _PNAMES), rnd.random() < 0.25,
            [pick(rnd, _XPARAMS) for _ in range(small(rnd, 2))], [pick(rnd, _XPARAMS) for _ in range(small(rnd, 2))],
            rnd.randrange(len(_SEPS))]


# legacy (non-UTF) charsets: texts for them are drawn from the charset's own repertoire, so that no UTF-8 fallback
# happens, with weight on the characters that a *sibling* codec of the same family treats differently
_FAMILIES = [["gb2312", "gbk", "gb18030"], ["shift_jis", "cp932", "shift_jisx0213"], ["euc-jp", "euc_jisx0213"], ["euc-kr", "cp949"],
             ["big5", "big5hkscs", "cp950"], ["latin-1", "cp1252", "iso-8859-15"], ["iso-8859-2", "windows-1250"],
             ["windows-1251", "iso-8859-5", "koi8-r", "koi8-u"], ["iso-8859-7", "windows-1253"], ["ascii", "latin-1"]]
_LEGACY = ["gb2312", "GB2312", "gbk", "GBK", "gb18030", "shift_jis", "cp932", "euc-jp", "euc-kr", "cp949", "big5", "big5hkscs",
           "latin-1", "cp1252", "iso-8859-15", "iso-8859-2", "windows-1250", "windows-1251", "iso-8859-5", "koi8-r", "koi8-u",
           "iso-8859-7"]
_alpha_cache = {}


def _repertoire(codec):
    """all characters the codec writes as one or two bytes and reads back (enumerated by decoding every 1- and 2-byte
    sequence; deterministic order) -> {char: bytes}"""
    rep = {}
    dec = codecs.getdecoder(codec)
    enc = codecs.getencoder(codec)
    seqs = [bytes([a]) for a in range(256)] + [bytes([a, b]) for a in range(0x81, 0xFF) for b in range(0x30, 0x100)]
    for bs in seqs:
        try:
            ch, n = dec(bs)
            if n != len(bs) or len(ch) != 1 or enc(ch)[0] != bs:
                continue
        except (UnicodeError, ValueError):
            continue
        rep.setdefault(ch, bs)
    return rep


def _alphabet(charset):
    """-> (all characters, characters on which a sibling codec disagrees) for a legacy charset, cached per process"""
    name = codecs.lookup(charset).name
    if name in _alpha_cache:
        return _alpha_cache[name]
    rep = _repertoire(name)
    odd = []
    for fam in _FAMILIES:
        names = [codecs.lookup(f).name for f in fam]
        if name not in names:
            continue
        for sib in names:
            if sib == name:
                continue
            sdec, senc = codecs.getdecoder(sib), codecs.getencoder(sib)
            for ch, bs in rep.items():
                try:
                    same = sdec(bs)[0] == ch and senc(ch)[0] == bs
                except (UnicodeError, ValueError):
                    same = False
                if not same:
                    odd.append(ch)
    chars = [c for c in rep if ord(c) >= 0x80]
    _alpha_cache[name] = (chars or list(rep), sorted(set(odd)))
    return _alpha_cache[name]


def _g_legacy_text(rnd, charset):
    chars, odd = _alphabet(charset)
    out = []
    for _ in range(rnd.randint(1, 6)):
        r = rnd.random()
        if r < 0.45 and odd:
            out.append(pick(rnd, odd))
        elif r < 0.8:
            out.append(pick(rnd, chars))
        else:
            out.append(text(rnd, _ASCII, 1, 4))
    return "".join(out)


def build(rnd):
    if rnd.random() < 0.25:
        charset = pick(rnd, _LEGACY)
        s = _g_legacy_text(rnd, charset)
    else:
        charset = pick(rnd, CHARSETS)
        s = canon("".join(_g_piece(rnd) for _ in range(rnd.randint(1, 6))))
    return [rnd.random() < 0.5, pick(rnd, TYPES), charset, pick(rnd, _CODINGS), s, _g_spelling(rnd)]


def _content_type(mtype, charset, spelling):
    if mtype is None:
        return None
    if spelling is None:
        return mtype if charset is None else "%s; charset=%s" % (mtype, charset)
    pname, quoted, pre, post, sep = spelling
    sep = _SEPS[sep % len(_SEPS)]
    params = list(pre)
    if charset is not None:
        params.append('%s="%s"' % (pname, charset) if quoted and '"' not in charset else "%s=%s" % (pname, charset))
    params += list(post)
    return mtype + "".join(sep + p for p in params)


def run(ctx):
    runner.fast(ctx, build, check_case, ctx.n(QUICK_N, THOROUGH_N))


# ------------------------------------------------------------------ independent helpers
def _params(ct):
    """own Content-Type parameter reader: ';'-separated (quoted strings respected), OWS trimmed, names lower-cased
    (RFC 9110 5.6.6: parameter names are case-insensitive), quoted-string values unquoted -> [(name, value)]"""
    if ct is None:
        return []
    parts, cur, inq, esc = [], [], False, False
    for ch in ct:
        if inq:
            cur.append(ch)
            if esc:
                esc = False
            elif ch == "\\":
                esc = True
            elif ch == '"':
                inq = False
        elif ch == '"':
            inq = True
            cur.append(ch)
        elif ch == ";":
            parts.append("".join(cur))
            cur = []
        else:
            cur.append(ch)
    parts.append("".join(cur))
    out = []
    for p in parts[1:]:
        if "=" not in p:
            continue
        k, v = p.split("=", 1)
        v = v.strip(" \t")
        if len(v) >= 2 and v[0] == '"' and v[-1] == '"':
            v = re.sub(r"\\(.)", r"\1", v[1:-1])
        out.append((k.strip(" \t").lower(), v))
    return out


def _charsets(ct):
    return [v for k, v in _params(ct) if k == "charset"]


def _charset_of(ct):
    cs = _charsets(ct)
    return cs[0] if cs else None


def _codec(name):
    try:
        return codecs.lookup(name)
    except (LookupError, TypeError, ValueError):
        return None


def _can_encode(s, name):
    c = _codec(name)
    if c is None:
        return False
    try:
        out = codecs.encode(s, name)
    except (ValueError, TypeError):
        return False
    return isinstance(out, bytes)


_BOMS = [(b"\x00\x00\xfe\xff", "utf-32be"), (b"\xff\xfe\x00\x00", "utf-32le"), (b"\xfe\xff", "utf-16be"),
         (b"\xff\xfe", "utf-16le"), (b"\xef\xbb\xbf", "utf-8")]
_DECL_RE = re.compile(r"<meta[^>]+charset=|<\?xml[^?>]+encoding=|@charset \"", re.I)


def _decl_family(mtype, s):
    """which kind of in-body charset declaration applies to this media type and is present in s (None: none)"""
    if "json" in mtype:
        return None
    if "html" in mtype and re.search(r"<meta[^>]+charset=", s, re.I):
        return "html"
    if "html" not in mtype and "xml" in mtype and re.search(r"<\?xml[^?>]+encoding=", s, re.I):
        return "xml"
    if "text/css" in mtype and re.match(r'@charset "', s, re.I):
        return "css"
    return None


def _has_surrogates(s):
    return any(0xD800 <= ord(c) <= 0xDFFF for c in s)


def _mk(is_req, fields):
    from mitmproxy import http
    h = http.Headers(fields)
    if is_req:
        return http.Request("h.test", 80, b"POST", b"http", b"", b"/", b"HTTP/1.1", h, b"", None, 0.0, 0.0)
    return http.Response(b"HTTP/1.1", 200, b"OK", h, b"", None, 0.0, 0.0)


def check_case(case, ctx):
    is_req, mtype, charset, coding, s = case[:5]
    spelling = case[5] if len(case) > 5 else None
    ct = _content_type(mtype, charset, spelling)
    pname = spelling[0] if spelling and charset is not None else "charset"
    fields = []
    if ct is not None:
        fields.append((b"Content-Type", ct.encode()))
    if coding:
        fields.append((b"Content-Encoding", coding.encode()))
    m = _mk(is_req, fields)
    declared = _charset_of(ct)
    surr = _has_surrogates(s)

    # trusted-base precondition: the codec itself must be able to round-trip s
    if declared and _can_encode(s, declared):
        try:
            if codecs.decode(codecs.encode(s, declared), declared) != s:
                ctx.cls("skipped:codec-not-injective")
                return
        except ValueError:
            ctx.cls("skipped:codec-not-injective")
            return

    try:
        m.text = s
    except Exception as e:
        ctx.crash(e, "set_text-raises")
        return
    raw = m.get_content(strict=False)
    lenient = False
    try:
        back = m.text
    except ValueError as e:
        if surr:
            lenient = True
            back = m.get_text(strict=False)
        else:
            back = ("raises", type(e).__name__, str(e)[:120])
    except Exception as e:
        ctx.crash(e, "get_text-raises")
        return

    tclass = "surrogates" if surr else "ascii" if s.isascii() else "non-ascii"
    bom = next((name for b, name in _BOMS if raw.startswith(b)), None)
    has_decl = bool(_DECL_RE.search(s))
    mention = not has_decl and bool(re.search(r"charset=|encoding=|@charset", s, re.I))
    if mention:
        ctx.cls("charset-mentioned-outside-declaration")
    if tclass != "ascii" or bom or has_decl or mention:
        ctx.nt((is_req, mtype, charset, coding, s),
               "%s%s%s" % (tclass, "+bom" if bom else "", "+decl" if has_decl else ""))
    else:
        ctx.cls("plain-ascii")
    ctx.cls("type:%s" % mtype)
    if spelling:
        ctx.cls("spelling:name=%s%s%s" % (spelling[0], ",quoted" if spelling[1] else "", ",extra" if spelling[2] or spelling[3] else ""))
    if lenient:
        ctx.cls("read-back-lenient")

    if back != s:
        if bom:
            if s.startswith("\ufeff"):
                bucket = "bom:text-starts-with-U+FEFF"
            elif declared and _codec(declared) and _codec(declared).name in ("utf-16", "utf-32"):
                bucket = "bom:written-by-%s-codec-not-stripped" % _codec(declared).name
            else:
                bucket = "bom:lookalike-bytes-sniffed-as-%s" % bom
        elif (not declared or pname != "charset") and _decl_family(mtype or "", s):
            bucket = "in-body-declaration:%s" % _decl_family(mtype or "", s)
        else:
            bucket = "roundtrip:%s:%s:%s%s" % (mtype, charset, tclass, "" if pname == "charset" else ":" + pname)
        ctx.fail(bucket, "Content-Type %r, text %r -> body %r -> text %r (Content-Type now %r)"
                 % (ct, s[:60], raw[:60], back if not isinstance(back, str) else back[:60], m.headers.get("content-type")))
        return

    # header consequence
    if declared is not None and declared.lower() in ("gb2312", "gbk"):
        return  # documented: treated as the superset gb18030
    effective = declared
    if not effective or "/" not in (mtype or ""):
        return  # no (usable) declaration: nothing the header could contradict (defaults are mitmproxy's choice)
    if not _can_encode(s, effective):
        # every charset parameter left in the header (names compared case-insensitively) must be able to represent s:
        # a recipient may pick any of them, a stale one next to the new one still mis-declares the body
        now = _charsets(m.headers.get("content-type"))
        ok = bool(now)
        for c in now:
            if _codec(c) is None:
                ok = False
                continue
            try:
                s.encode(c, "surrogateescape")
            except ValueError:
                ok = False
        ctx.cls("charset-updated")
        if not ok:
            ctx.fail("charset-not-updated:%s" % (charset if pname == "charset" else "param-name-case"),
                     "declared charset %r cannot represent %r, header before %r, afterwards %r"
                     % (declared, s[:40], ct, m.headers.get("content-type")))
