"""C16 -- generated leaf certificates are valid for the identity the client asked for.

The real TlsConfig (lib/tlspeers.TlsEnv, private confdir) produces the certificate:
  * end to end: a Python-ssl client (CERT_REQUIRED, check_hostname, VERIFY_X509_STRICT, trusting only the CA root) performs
    a handshake with ClientTLSLayer driven by lib/driver; the certificate the client *received* is examined, or
  * for identities a Python client cannot put on the wire (IP literal or U-label as SNI): TlsConfig.get_cert is called on a
    prepared context and the resulting (cert, key, chain) is served by a Python-ssl server peer to the same strict client.

Generated: SNI forms (1..4 labels, 63-char labels, names up to 253 chars, A-labels, U-labels, underscore, upper case,
IPv4/IPv6 literals), no SNI with IPv4/IPv6/IPv4-mapped local addresses, server address forms (none, host, IDN, IP),
upstream certificate (none / present; option upstream_cert on/off) with CN (host-like, wildcard, IP, organisation-like with
spaces/non-ASCII, 64 chars, absent), SANs (DNS, wildcard, IP, IP literal as dNSName, e-mail, URI; often sharing names with
the request identity in either GeneralName type / other case / as CN), organisation, CRL distribution point;
CA flavours: mitmproxy's own generated CA, a custom intermediate CA (RFC 7093 SHA-256 SKI) below a root, a custom root
without SKI.

Oracle (independent: Python ssl/OpenSSL 3.0 strict verification + `cryptography` inspection + RFC 5280 rules):
  * a certificate is produced (get_cert does not raise; the handshake reaches the client's verification)
  * the strict client accepts it for the SNI -- or, without SNI, for the local address
  * issuer == CA subject and the signature verifies under the CA key; AKI keyIdentifier == CA SKI (when the CA has one)
  * not_before <= now <= not_after; EKU contains serverAuth; SAN present, and critical when the subject is empty
  * name confinement: every SAN entry and the CN come from {SNI | local address, server address, upstream CN/SANs}
    (upstream names only when upstream_cert is on and an upstream certificate is known)
  * end to end: the certificate on the wire is the one get_cert returns for that context
"""
import datetime
import ipaddress
import ssl

from hypothesis import strategies as st

import tlspeers as T
from runner import HarnessError, hyp

PID = "C16"
LEVEL = "exploration"
TECHNIQUE = "Hypothesis identities/upstream certs -> real TlsConfig.get_cert/ClientTLSLayer; verified by Python-ssl strict client + cryptography inspection"
RULE = ("generated (SNI form | local address) x server address form x upstream certificate shape x upstream_cert option x CA "
        "flavour; non-trivial = SNI other than a plain lower-case ASCII host name, or an upstream certificate present, or a "
        "custom CA; distinct by (ca, sni class, address class, upstream shape classes, path)")
ASSUMPTIONS = [
    "Python ssl (OpenSSL 3.0, VERIFY_X509_STRICT, check_hostname) and the cryptography library are correct verifiers/parsers",
    "validity is judged against the wall clock at the time of the case",
    "U-labels are generated from characters that IDNA maps to themselves, so A-label conversion is unambiguous",
]
LEVEL_TEXT = "generated identities and upstream certificates; every produced certificate is verified by an independent strict verifier"
LEVEL_NOTE = "trusts Python ssl/OpenSSL 3.0 and cryptography as the verifier"
QUICK_N, THOROUGH_N = 14_000, 400_000
BUDGET_S = (240, 3600)

# ------------------------------------------------------------------------------------------------ strategies
_lc = "abcdefghijklmnopqrstuvwxyz0123456789"
_lab = st.text(_lc, min_size=1, max_size=10)
_lab_odd = st.one_of(
    st.tuples(_lab, _lab).map(lambda t: t[0] + "-" + t[1]),
    st.tuples(_lab, _lab).map(lambda t: t[0] + "_" + t[1]),
    _lab.map(lambda s: s.upper()),
    st.just("a" * 63), st.just("xn--bcher-kva"), st.just("xn--80ak6aa92e"), st.just("1"), st.just("0x1"),
)
_ulab = st.tuples(st.text(_lc, max_size=4), st.sampled_from(["ü", "é", "例え", "αβγ", "ж", "🌈"]), st.text(_lc, max_size=3)).map("".join)
_tld = st.sampled_from(["com", "example", "test", "org", "internal", "co.uk"])


def _join(labels):
    return ".".join(labels)


_plain_host = st.tuples(st.lists(_lab, min_size=1, max_size=3), _tld).map(lambda t: _join(t[0] + [t[1]]))
_odd_host = st.one_of(
    st.tuples(st.lists(st.one_of(_lab, _lab_odd), min_size=0, max_size=3), st.one_of(_lab_odd, _tld)).map(lambda t: _join(t[0] + [t[1]])),
    st.lists(st.just("a" * 63), min_size=2, max_size=3).map(lambda l: _join(l + ["b" * 59])),  # 187 / 251 chars
    st.just(_join(["a" * 63] * 3 + ["b" * 61])),  # 253
    _lab,  # single label
)
_ascii_host = st.one_of(_plain_host, _plain_host, _odd_host)
_idn_host = st.tuples(st.lists(st.one_of(_lab, _ulab), min_size=1, max_size=3), _tld).map(lambda t: _join(t[0] + [t[1]]))
_ipv4 = st.integers(0x01000001, 0xDFFFFFFE).map(lambda i: str(ipaddress.IPv4Address(i)))
_ipv6 = st.one_of(st.sampled_from(["::1", "2001:db8::1", "fe80::1", "::ffff:192.0.2.1", "2001:db8:0:0:0:0:0:1"]),
                  st.integers(1, 2 ** 128 - 2).map(lambda i: str(ipaddress.IPv6Address(i))))
_ip = st.one_of(_ipv4, _ipv6)

_sni = st.one_of(_ascii_host, _ascii_host, _ascii_host, _idn_host, _ip)
_addr = st.one_of(st.none(), _ascii_host, _idn_host, _ip)
_org = st.one_of(st.none(), st.sampled_from(["Example Inc.", "Bücher GmbH", "例え 株式会社", "A" * 64, "x"]), st.text(_lc + " ", min_size=1, max_size=20))
_cn64 = lambda h: h[-64:].lstrip(".-")  # X.520 ub-common-name: a CN has at most 64 characters
_up_cn = st.one_of(st.none(), _ascii_host.map(_cn64), _plain_host, _plain_host.map(lambda h: "*." + h), _ip, _idn_host.map(_cn64),
                   st.sampled_from(["Société Générale", "Example Server Certificate", "a" * 64, "a" * 63, "A B", "*", "localhost",
                                    "example.com.", "a..b", " ", "ex ample.com"]))
_up_san = st.one_of(_ascii_host, _plain_host.map(lambda h: "*." + h), _ip.map(lambda i: "ip:" + i),
                    _ip.map(lambda i: "dnsname:" + i),  # an IP literal in a dNSName SAN (routers / appliances do that)
                    st.sampled_from(["email:admin@example.com", "uri:https://example.com/x", "xn--bcher-kva.example", "*.*.example.com"]))
_upstream = st.one_of(st.none(), st.fixed_dictionaries({
    "cn": _up_cn, "sans": st.lists(_up_san, max_size=4, unique=True), "org": _org,
    "crl": st.sampled_from([None, None, "http://crl.example.com/ca.crl", "ldap://x/y", "http://[::1", "https://crl.example.com:8443/a/b?c"]),
}))

_base_case = st.fixed_dictionaries({
    "ca": st.sampled_from(["default", "default", "chain", "noski"]),
    "sni": st.one_of(st.none(), _sni, _sni, _sni),
    "sockname": st.one_of(st.just("127.0.0.1"), _ip),
    "server_addr": _addr,
    "upstream": _upstream,
    "upstream_opt": st.sampled_from([True, True, True, False]),
})


@st.composite
def _case_strategy(draw):
    """base case; when an upstream certificate is present it often *shares names with the request* (the usual situation:
    the upstream certificate is for the host the client asked for), in either GeneralName type, any case, as SAN or CN"""
    case = draw(_base_case)
    up = case["upstream"]
    if up is not None and draw(st.integers(0, 2)) != 0:
        idents = [x for x in (case["sni"], case["sockname"], case["server_addr"]) if x]
        sans = list(up["sans"])
        for _ in range(draw(st.integers(1, 2))):
            pick = draw(st.sampled_from(idents))
            kind, val = canon(pick)
            text = pick if kind == "ip" else val  # ASCII text of the identity (A-label form for IDNs)
            proper = ("ip:" + pick) if kind == "ip" else text
            form = draw(st.sampled_from(["as-dns", "as-dns", "as-dns-upper", "both-types", "both-types-reversed", "proper", "as-cn"]))
            new = {"as-dns": ["dnsname:" + text], "as-dns-upper": ["dnsname:" + text.upper()], "both-types": ["dnsname:" + text, proper],
                   "both-types-reversed": [proper, "dnsname:" + text], "proper": [proper], "as-cn": []}[form]
            if form == "as-cn":
                up = dict(up, cn=text[-64:].lstrip(".-") or None)
            pos = draw(st.integers(0, len(sans)))
            sans[pos:pos] = [x for x in new if x not in sans]
        case = dict(case, upstream=dict(up, sans=sans))
    return case


def strategy(ctx):
    return _case_strategy()


# ------------------------------------------------------------------------------------------------ canonical names
def alabel_host(host: str) -> str:
    """independent A-label conversion (RFC 3492 punycode per non-ASCII label; generator avoids characters IDNA would map)"""
    out = []
    for lab in host.split("."):
        if all(ord(c) < 128 for c in lab):
            out.append(lab.lower())
        else:
            out.append("xn--" + lab.lower().encode("punycode").decode("ascii"))
    return ".".join(out)


def canon(s: str):
    """canonical identity of a user-visible name: ('ip', packed) or ('dns', a-label lower)"""
    try:
        return ("ip", ipaddress.ip_address(s).packed)
    except ValueError:
        pass
    try:
        return ("dns", alabel_host(s))
    except UnicodeError:
        return ("dns", s.lower())


def canon_gn(gn):
    from cryptography import x509
    if isinstance(gn, x509.DNSName):
        return ("dns", gn.value.lower())
    if isinstance(gn, x509.IPAddress):
        return ("ip", gn.value.packed)
    return (type(gn).__name__, str(gn.value))


def sni_class(s):
    if s is None:
        return "none"
    k, v = canon(s)
    if k == "ip":
        return "ip6" if len(v) == 16 else "ip4"
    cls = []
    if any(ord(c) > 127 for c in s):
        cls.append("ulabel")
    if "xn--" in s.lower():
        cls.append("alabel")
    if "_" in s:
        cls.append("underscore")
    if s != s.lower():
        cls.append("upper")
    if len(s) >= 64:
        cls.append("long")
    if "." not in s:
        cls.append("single")
    return "+".join(cls) or "plain"


# ------------------------------------------------------------------------------------------------ environment
_ENV = {}


def env():
    if "env" in _ENV:
        return _ENV
    import os
    e = T.TlsEnv()  # default confdir: mitmproxy generates its own RSA CA
    default_dir = e.confdir
    root = T.make_ca("verif custom root", 31)
    inter = T.make_ca("verif custom issuing CA", 32, issuer=root, ski="sha256", path_length=0)
    chain_dir = os.path.join(T.workdir(), "conf-chain")
    os.makedirs(chain_dir, exist_ok=True)
    T.write_file("conf-chain/mitmproxy-ca.pem", inter.key_pem + inter.pem + root.pem)
    noski = T.make_ca("verif custom root without SKI", 33, ski=None)
    noski_dir = os.path.join(T.workdir(), "conf-noski")
    os.makedirs(noski_dir, exist_ok=True)
    T.write_file("conf-noski/mitmproxy-ca.pem", noski.key_pem + noski.pem)
    _ENV.update(env=e, dirs={"default": default_dir, "chain": chain_dir, "noski": noski_dir},
                roots={"chain": root.pem, "noski": noski.pem}, cctx={}, keypem={})
    return _ENV


def ca_info(E, flavour):
    """(issuing CA certificate (cryptography), trust root PEM)"""
    store = E["env"].addon.certstore
    issuing = store.default_ca.to_cryptography()
    root_pem = E["roots"].get(flavour) or store.default_ca.to_pem()
    return issuing, root_pem


def client_ctx(E, flavour, root_pem):
    if flavour not in E["cctx"]:
        # the SKI-less custom root is itself not acceptable under X509_STRICT; that flavour is verified non-strictly
        E["cctx"][flavour] = T.client_context(root_pem, strict=(flavour != "noski"))
    return E["cctx"][flavour]


def upstream_cert(E, up):
    from cryptography import x509
    from mitmproxy import certs
    sans = []
    for s in up["sans"]:
        if s.startswith("email:"):
            sans.append(x509.RFC822Name(s[6:]))
        elif s.startswith("uri:"):
            sans.append(x509.UniformResourceIdentifier(s[4:]))
        elif s.startswith("dnsname:"):
            sans.append(x509.DNSName(s[8:]))  # whatever the text looks like (IP literals included)
        else:
            sans.append(s)
    if "upca" not in E:
        E["upca"] = T.make_ca("verif upstream CA", 41)
    node = T.make_cert(key_index=42, cn=up["cn"], org=up["org"], sans=sans, issuer=E["upca"], crl_url=up["crl"])
    return certs.Cert(node.cert)


# ------------------------------------------------------------------------------------------------ oracle
def check_case(case, ctx):
    from cryptography import x509
    from cryptography.x509.oid import ExtendedKeyUsageOID, NameOID
    E = env()
    e = E["env"]
    flavour = case["ca"]
    e.configure(confdir=E["dirs"][flavour], upstream_cert=bool(case["upstream_opt"]), connection_strategy="lazy")
    e.addon_errors.clear()
    store = e.addon.certstore
    store.certs.clear()
    store.expire_queue.clear()
    issuing, root_pem = ca_info(E, flavour)

    sni = case["sni"]
    sockname = case["sockname"]
    ident = sni if sni is not None else sockname
    ident_c = canon(ident)
    addr = case["server_addr"]
    up = case["upstream"]
    use_up = up is not None and case["upstream_opt"]

    # Can a Python client put this identity on the wire (SNI = ASCII DNS name; or no SNI at all)?
    e2e = sni is None or (ident_c[0] == "dns" and all(ord(ch) < 128 for ch in sni))
    d, c, rec, layers = T.make_stack(e, client_tls=True, server_tls=False, server_address=(addr, 443) if addr else None,
                                     sockname=(sockname, 8080))
    if up is not None:
        try:
            c.server.certificate_list = [upstream_cert(E, up)]
        except (ValueError, TypeError) as ex:
            ctx.cls("upstream-cert-not-constructible:" + str(ex)[:40])  # cryptography refuses to build such a certificate
            return
    cls_key = (flavour, sni_class(sni), "addr:" + sni_class(addr), _up_class(up) if use_up else ("up-ignored" if up else "no-up"),
               "e2e" if e2e else "direct")
    plain = (sni is not None and sni_class(sni) == "plain" and up is None and flavour == "default")
    if plain:
        ctx.cls("plain-ascii-sni")
    else:
        ctx.nt(cls_key, "%s/%s/%s" % (flavour, "sni:" + sni_class(sni), "upstream" if use_up else "no-upstream"))

    now0 = datetime.datetime.now(datetime.timezone.utc)
    presented = None
    chain_ok_detail = None
    if e2e:
        cctx = client_ctx(E, flavour, root_pem)
        cl = T.PyPeer(cctx, False, ident if sni is not None else sockname)
        wire = bytearray()

        def on_send(data):
            cl.feed(data)
            try:
                cl.handshake()
            except T.PeerError:
                pass
            wire.extend(cl.drain())

        d.on_send[c.client] = on_send
        d.start()
        try:
            cl.handshake()
        except T.PeerError as ex:
            raise HarnessError("client could not start: %s" % ex)
        wire.extend(cl.drain())
        for _ in range(10):
            if not wire or d.crashed is not None or c.client.state.name == "CLOSED":
                break
            seg = bytes(wire)
            wire.clear()
            d.recv(c.client, seg)
        if d.crashed is not None:
            ctx.fail("layer-crash:%s" % type(d.crashed).__name__, repr(d.crashed))
            return
        if e.addon_errors:
            hook, ex = e.addon_errors[0]
            ctx.fail("no-certificate:%s:%s" % (type(ex).__name__, _culprit(case)), "%s raised %r for sni=%r addr=%r upstream=%r" % (hook, ex, sni, addr, up))
            return
        if sni is not None and c.client.sni != sni:
            # the certificate is made for what mitmproxy read from the hello: a misread SNI breaks "valid for the identity
            # the client asked for" (reported, not a harness error)
            ctx.fail("sni-read-differs-from-sent", "mitmproxy read SNI %r, the client sent %r" % (c.client.sni, sni))
            return
        der = None
        try:
            der = cl.obj.getpeercert(binary_form=True)
        except ValueError:
            der = None
        if cl.error is not None or not cl.done:
            msg = str(cl.error) if cl.error is not None else "handshake did not complete (client.error=%r)" % (c.client.error,)
            ctx.fail("strict-client-rejects:%s" % _reason(msg), "identity=%r sni_class=%s ca=%s: %s" % (ident, sni_class(sni), flavour, msg[:300]))
            # still inspect the certificate below if we can get hold of it
            try:
                entry = e.addon.get_cert(c)
                presented = entry.cert.to_cryptography()
            except Exception:
                return
        else:
            presented = x509.load_der_x509_certificate(der)
            entry = e.addon.get_cert(c)
            if entry.cert.to_cryptography().fingerprint(T.hashes.SHA256()) != presented.fingerprint(T.hashes.SHA256()):
                ctx.fail("presented-cert-differs-from-get_cert", "wire cert %r vs get_cert %r" % (presented.subject, entry.cert))
    else:
        c.client.sni = sni
        try:
            entry = e.addon.get_cert(c)
        except Exception as ex:
            ctx.fail("no-certificate:%s:%s" % (type(ex).__name__, _culprit(case)), "get_cert raised %r for sni=%r addr=%r upstream=%r" % (ex, sni, addr, up))
            return
        presented = entry.cert.to_cryptography()
        # serve (cert, key, chain) with a Python-ssl server to the strict client
        # (cached per CA flavour: the key lives in that flavour's confdir for the whole process.  Never key this on id():
        # the certstore is reloaded when the confdir option changes and object ids get reused)
        kp = E["keypem"].get(flavour)
        if kp is None:
            kp = entry.privatekey.private_bytes(T.serialization.Encoding.PEM, T.serialization.PrivateFormat.PKCS8, T.serialization.NoEncryption())
            E["keypem"][flavour] = kp
        chain_pem = b"".join(x.to_pem() for x in entry.chain_certs)
        import os
        p = T.write_file("c16-srv.pem", presented.public_bytes(T.serialization.Encoding.PEM) + chain_pem + kp)
        sctx = ssl.SSLContext(ssl.PROTOCOL_TLS_SERVER)
        try:
            sctx.load_cert_chain(p)
        finally:
            os.unlink(p)
        srv = T.PyPeer(sctx, True)
        verify_name = ident if ident_c[0] == "ip" else ident_c[1]
        cl = T.PyPeer(client_ctx(E, flavour, root_pem), False, verify_name)
        err = _pump_pair(cl, srv)
        if err or not cl.done:
            msg = err or "handshake did not complete"
            ctx.fail("strict-client-rejects:%s" % _reason(msg), "identity=%r (verified as %r) sni_class=%s ca=%s: %s" % (
                ident, verify_name, sni_class(sni), flavour, msg[:300]))
    now1 = datetime.datetime.now(datetime.timezone.utc)
    if presented is None:
        return

    # ---- structure (cryptography)
    if presented.issuer != issuing.subject:
        ctx.fail("issuer-not-ca", "issuer=%r ca=%r" % (presented.issuer, issuing.subject))
    try:
        presented.verify_directly_issued_by(issuing)
    except Exception as ex:
        ctx.fail("signature-not-by-ca", repr(ex))
    nb, na = presented.not_valid_before_utc, presented.not_valid_after_utc
    if not (nb <= now0 and now1 <= na):
        ctx.fail("not-valid-now", "not_before=%s not_after=%s now=%s" % (nb, na, now0))
    try:
        eku = presented.extensions.get_extension_for_class(x509.ExtendedKeyUsage).value
        if ExtendedKeyUsageOID.SERVER_AUTH not in eku:
            ctx.fail("eku-without-serverauth", repr(list(eku)))
    except x509.ExtensionNotFound:
        pass  # no EKU = any purpose
    try:
        ku = presented.extensions.get_extension_for_class(x509.KeyUsage).value
        if not (ku.digital_signature or ku.key_encipherment or ku.key_agreement):
            ctx.fail("keyusage-excludes-tls", repr(ku))
    except x509.ExtensionNotFound:
        pass
    try:
        bc = presented.extensions.get_extension_for_class(x509.BasicConstraints).value
        if bc.ca:
            ctx.fail("leaf-is-ca", repr(bc))
    except x509.ExtensionNotFound:
        pass
    try:
        san_ext = presented.extensions.get_extension_for_class(x509.SubjectAlternativeName)
    except x509.ExtensionNotFound:
        ctx.fail("no-san", "subject=%r" % presented.subject)
        return
    if len(presented.subject) == 0 and not san_ext.critical:
        ctx.fail("san-not-critical-with-empty-subject", "RFC 5280 4.2.1.6")
    try:
        ca_ski = issuing.extensions.get_extension_for_class(x509.SubjectKeyIdentifier).value.digest
    except x509.ExtensionNotFound:
        ca_ski = None
    try:
        aki = presented.extensions.get_extension_for_class(x509.AuthorityKeyIdentifier).value.key_identifier
    except x509.ExtensionNotFound:
        aki = None
    if ca_ski is not None and aki != ca_ski:
        ctx.fail("aki-differs-from-ca-ski:%s" % flavour, "aki=%r ca ski=%r" % (aki, ca_ski))

    # ---- the identity is named
    sans_c = [canon_gn(g) for g in san_ext.value]
    if ident_c not in sans_c:
        ctx.fail("identity-not-in-san:%s" % sni_class(sni), "identity %r canon %r, SAN %r" % (ident, ident_c, sans_c[:6]))

    # ---- name confinement
    allowed = {ident_c}
    if addr:
        allowed.add(canon(addr))
    if use_up:
        upc = c.server.certificate_list[0].to_cryptography()
        for a in upc.subject.get_attributes_for_oid(NameOID.COMMON_NAME)[:1]:
            if a.value:
                allowed.add(canon(a.value))
        try:
            for g in upc.extensions.get_extension_for_class(x509.SubjectAlternativeName).value:
                allowed.add(canon_gn(g))
        except x509.ExtensionNotFound:
            pass
    for g in sans_c:
        if g not in allowed:
            ctx.fail("san-names-foreign-identity:%s" % ("upstream-off" if (up and not use_up) else g[0]),
                     "SAN entry %r not among %r" % (g, sorted(allowed, key=repr)[:8]))
            break
    cns = presented.subject.get_attributes_for_oid(NameOID.COMMON_NAME)
    if cns:
        if len(cns[0].value) > 64:
            ctx.fail("cn-too-long", "%d" % len(cns[0].value))
        cnc = canon(cns[0].value)
        # the CN is "str(first altname value)"; compare on canonical form, and literally for non-DNS/IP general names
        # (an IP literal that the upstream certificate carries as dNSName stays text: compare that reading as well)
        if cnc not in allowed and ("dns", cns[0].value.lower()) not in allowed \
                and not any(cns[0].value == v for k, v in allowed if k not in ("dns", "ip")):
            ctx.fail("cn-names-foreign-identity", "CN %r not among %r" % (cns[0].value, sorted(allowed, key=repr)[:8]))
    orgs = presented.subject.get_attributes_for_oid(NameOID.ORGANIZATION_NAME)
    if orgs and not (use_up and up["org"] == orgs[0].value):
        ctx.fail("organization-invented", "O=%r upstream=%r" % (orgs[0].value, up and up["org"]))


def _culprit(case):
    """which input is outside what a DNS name can be (for bucketing only)"""
    up = case["upstream"]
    if up is not None and case["upstream_opt"] and up["cn"]:
        labels = up["cn"].split(".")
        if any(len(x.encode("utf-8")) > 63 or (x == "" and i < len(labels) - 1) for i, x in enumerate(labels)) or up["cn"] == ".":
            return "upstream-cn-not-a-hostname"
    return "other"


def _up_class(up):
    if up is None:
        return "no-up"
    cn = up["cn"]
    if cn is None:
        c = "cn-none"
    else:
        k, v = canon(cn)
        c = "cn-ip" if k == "ip" else ("cn-wild" if cn.startswith("*") else "cn-space" if " " in cn else
                                       "cn-long" if len(cn) >= 63 else "cn-idn" if any(ord(x) > 127 for x in cn) else "cn-host")
    kinds = sorted(set(("ip" if s.startswith("ip:") else "email" if s.startswith("email:") else "uri" if s.startswith("uri:")
                        else ("ip-as-dns" if canon(s[8:])[0] == "ip" else "dns") if s.startswith("dnsname:")
                        else "wild" if s.startswith("*") else "dns") for s in up["sans"]))
    return "%s/san:%s/%s/%s" % (c, "+".join(kinds) or "-", "org" if up["org"] else "-", "crl" if up["crl"] else "-")


def _reason(msg: str) -> str:
    m = msg.lower()
    for key in ("hostname mismatch", "ip address mismatch", "unable to get local issuer", "self-signed", "self signed",
                "authority and subject key identifier mismatch", "missing authority key identifier", "missing subject key identifier",
                "invalid ca", "unsupported", "expired", "not yet valid", "unhandled critical", "invalid or inconsistent",
                "ca cert does not include key usage", "path length", "certificate signature failure", "did not complete", "alert"):
        if key in m:
            return key.replace(" ", "-")
    return "other"


def _pump_pair(cl, srv):
    """in-memory handshake between two PyPeers; returns error text or None"""
    for _ in range(12):
        try:
            cl.handshake()
        except T.PeerError as ex:
            return str(ex)
        data = cl.drain()
        if data:
            srv.feed(data)
        try:
            srv.handshake()
        except T.PeerError as ex:
            # the client's alert: report the client's view if it has one
            try:
                cl.feed(srv.drain())
                cl.handshake()
            except T.PeerError as ex2:
                return str(ex2)
            return "server: " + str(ex)
        data = srv.drain()
        if data:
            cl.feed(data)
        if cl.done and srv.done:
            return None
    return None


def run(ctx):
    try:
        hyp(ctx, strategy(ctx), check_case, ctx.n(QUICK_N, THOROUGH_N))
    finally:
        if "env" in _ENV:
            _ENV["env"].close()
        T.cleanup()
