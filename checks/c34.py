"""C34 -- query, cookie, form, multipart and path views are lossless.

Case = [view, mode, ...] with view in {query, form, cookies, setcookies, multipart, path} and
  mode "assign":    a pair list restricted *by construction* to what the view's wire format can represent is assigned to
                    the view of a request/response that already has some (generated) path/body/headers, then read back;
  mode "writeback": a message whose path/body/header was produced by an independent reference encoder (written here)
                    gets `view = list(view.items(multi=True))`; the independently decoded meaning must not change.

Oracles
  assign:    list(view.items(multi=True)) == assigned pairs (same order); for query/path also: the other URL parts
             (path segments / query / fragment) keep their independently decoded meaning.
  writeback: view value unchanged, and reference-decoded meaning of the path / body / header unchanged
             (own WHATWG urlencoded parser, own RFC 6265 cookie-string splitter, own RFC 2046/7578 multipart parser).
Domains (from reading the serialisers, see DESIGN.md C34):
  query/form  : any strings (Unicode scalar values or surrogate-escaped bytes), pairs not both-empty
  cookies     : no CR/LF/NUL; names without '=' ';' and leading whitespace; name and value not both empty
  setcookies  : like cookies, names also without ','; value may be None if the name is non-empty; attributes from the
                RFC 6265 set with representable values (sane-cookie-date for Expires, no ';' ',' in Path)
  multipart   : non-empty names without '"' CR LF; arbitrary byte values (incl. CR/LF, empty, boundary look-alikes that
                are not a full delimiter line)
  path        : non-empty strings
"""
import re

import runner
from dmgen import canon, pick, rbytes, small, surrogate_text, text, uni_text

PID = "C34"
LEVEL = "exploration"
TECHNIQUE = "seeded-PRNG pair-list generation per view; round trip + independent reference decoders for write-back"
RULE = ("6 views x {assign, writeback (not for path)}; pair lists of <=5 pairs from pieces biased to separators/quotes/escapes/"
        "CR/LF/non-ASCII/surrogate-escaped bytes; non-trivial = some string contains a separator, quote, backslash, "
        "percent, plus, CR/LF, non-ASCII or is empty; distinct by (view, mode, payload)")
ASSUMPTIONS = ["reference decoders written from WHATWG urlencoded / RFC 6265 / RFC 2046+7578 define 'meaning'",
               "assigning view *objects* (req.query = other.query) is not exercised, only pair lists"]
LEVEL_TEXT = "randomised search per view with explicit round-trip and reference-decoder oracles"
LEVEL_NOTE = "trusts the reference decoders in this file"
QUICK_N, THOROUGH_N = 600_000, 6_000_000

# ------------------------------------------------------------------ generator (seeded PRNG, see lib/dmgen.py)
_SEP = ["&", "=", ";", "+", "%", "%41", "%zz", " ", '"', "\\", ",", "#", "?", "/", ":", "'", "\t", "\r\n", "\n", "\r",
        "\xe9", "\u4e2d", "\U0001f600", "\x00", "\x7f", "\xa0", " ", "--", "a=b", "a&b", "\\\"", "\"\""]
_NOCTL = {ord("\r"): "_", ord("\n"): "_", 0: "_"}
_DATES = ["Thu, 01 Jan 2026 00:00:00 GMT", "Wed, 21 Oct 2015 07:28:00 GMT", "Sun, 06 Nov 1994 08:49:37 GMT"]
_MP_NAMES = [b"k", b"field1", b"file", b"a b", b"x;y", b"name", b"k=v", b"\xc3\xa9", b"a'b", b"[]"]
_MP_VALS = [b"", b"v", b"value1", b"line1\r\nline2", b"a\nb", b"a\rb", b"x\r\n", b"\r\n", b"--", b"--XX", b"v--XXv",
            b"--XX--", b"\r\n--XY", b'"q"', b"\x00\xff", b"Content-Disposition: form-data; name=\"z\""]
_BOUNDARIES = ["XX", "XX", "----WebKitFormBoundary7MA4YWxkTrZu0gW", "-----------------------------735323031399963166993862150",
               "a.b_c-d", "0"]
_BOUNDARIES_Q = ["a+b", "a'b", "----=_Part+1'2"]   # bchars that are also token chars (valid unquoted parameter)
_BASE_PATHS = ["/", "/a/b", "/a;p", "/a?old=1", "/a/b?x=1&x=2#frag", "/a#frag", "/a%2Fb/c%20d;p=1?q", "//a", "/a/?"]
_FORM = "application/x-www-form-urlencoded"
_MP_CT_EXTRA = ["", "", "", "charset=utf-8; ", "charset=utf-16; ", "charset=latin-1; ", "foo=bar; "]   # parameters before boundary=
# pre-existing Content-Type of the request whose form/multipart view is assigned: other types, and the form type itself with
# charset and other parameters (any spelling a client may send)
_FORM_PARAMS = ["", "; charset=utf-8", "; charset=UTF-8", "; charset=utf-16", "; charset=utf-16le", "; charset=utf-16be", "; charset=utf-32",
                "; charset=utf-7", "; charset=latin-1", "; charset=iso-8859-1", "; charset=shift_jis", "; charset=gb2312", "; charset=ascii",
                "; charset=x-unknown", ";charset=utf-16le", "; Charset=utf-16", '; charset="utf-16le"', "; foo=bar", "; foo=bar; charset=utf-16le",
                "; charset=utf-16be; q=1", "; boundary=XX"]
_CTYPES = [None, "text/plain", "text/plain; charset=utf-16", "application/json", "multipart/form-data; boundary=XX", _FORM,
           "Application/X-WWW-Form-Urlencoded"] + [_FORM + x for x in _FORM_PARAMS]
# write-back: the existing body is really encoded in the declared charset (BOM-less ones: a BOM is C32's business)
_WB_FORM_CTYPES = [(_FORM, "ascii"), (_FORM + "; charset=utf-8", "utf-8"), ("Application/X-WWW-Form-Urlencoded", "ascii"),
                   (_FORM + "; charset=utf-16le", "utf-16le"), (_FORM + "; charset=utf-16be", "utf-16be"),
                   (_FORM + "; charset=latin-1", "latin-1"), (_FORM + "; charset=shift_jis", "shift_jis"),
                   (_FORM + "; foo=bar; charset=utf-16le", "utf-16le"), (_FORM + "; charset=utf-32be", "utf-32be"),
                   (_FORM + "; charset=ascii; q=1", "ascii")]
_OLD_BODIES = [None, b"", b"a=1&b=2", b"a&b", b"x", b"\xff\xfe", b"a=1&b"]
_CODINGS = [None, None, "gzip", "deflate", "br", "zstd"]   # Content-Encoding of the message the view lives on
_WB_ATTRS = [["Path", "/"], ["path", "/a/b"], ["Expires", _DATES[0]], ["expires", _DATES[1]], ["Domain", "example.com"],
             ["Max-Age", "3600"], ["Secure", None], ["HttpOnly", None], ["SameSite", "Lax"], ["Partitioned", None]]
_COOKIE_OCTETS = "abc019-._~!#$%&'()*+/:<=>?@[]^`{|}"


def _g_piece(rnd):
    r = rnd.randrange(5)
    if r == 0:
        return text(rnd, "abcxyz019-._~", 0, 5)
    if r in (1, 2):
        return pick(rnd, _SEP)
    if r == 3:
        return uni_text(rnd, 0, 3)
    return surrogate_text(rnd, 1, 3)


def _g_text(rnd, lo=0):
    return canon("".join(_g_piece(rnd) for _ in range(max(lo, small(rnd, 4)))))


def _cookie_val(s):
    return s.translate(_NOCTL)


def _cookie_name(s, setcookie=False):
    s = s.translate(_NOCTL).replace("=", "-").replace(";", "-")
    if setcookie:
        s = s.replace(",", "-")
    return s.lstrip()


def _g_qpairs(rnd):
    p = [[_g_text(rnd), _g_text(rnd)] for _ in range(small(rnd, 5))]
    return [x for x in p if x[0] != "" or x[1] != ""]


def _g_cpairs(rnd):
    p = [[_cookie_name(_g_text(rnd)), _cookie_val(_g_text(rnd))] for _ in range(small(rnd, 5))]
    return [x for x in p if x[0] != "" or x[1] != ""]


def _g_attr(rnd):
    r = rnd.randrange(7)
    if r == 0:
        return [pick(rnd, ["Path", "path"]), pick(rnd, ["/", "/a/b", "/a b", "", "/%41", "/x=y"])]
    if r == 1:
        return [pick(rnd, ["Expires", "expires"]), pick(rnd, _DATES)]
    if r == 2:
        return [pick(rnd, ["Domain", "domain"]), pick(rnd, ["example.com", ".example.com", ""])]
    if r == 3:
        return [pick(rnd, ["Max-Age", "max-age"]), pick(rnd, ["0", "3600", "-1"])]
    if r == 4:
        return [pick(rnd, ["Secure", "HttpOnly", "secure", "Partitioned"]), None]
    if r == 5:
        return ["SameSite", pick(rnd, ["Lax", "Strict", "None"])]
    return [pick(rnd, ["Comment", "x-ext"]), _cookie_val(_g_text(rnd))]


def _g_setcookie(rnd):
    name = _cookie_name(_g_text(rnd), True)
    val = None if rnd.random() < 0.25 else _cookie_val(_g_text(rnd))
    if not name:
        name = "n" if val in (None, "") else ""
    return [name, val, [_g_attr(rnd) for _ in range(small(rnd, 4))], rnd.random() < 0.5]


def _g_mp_name(rnd):
    if rnd.random() < 0.5:
        return pick(rnd, _MP_NAMES)
    return rbytes(rnd, 1, 6).replace(b'"', b"'").replace(b"\r", b"_").replace(b"\n", b"_")


def _g_simple_cookie(rnd):
    return [text(rnd, "abcXYZ_-.", 1, 4), text(rnd, _COOKIE_OCTETS, 0, 6)]


def build(rnd):
    view = pick(rnd, ["query", "form", "cookies", "setcookies", "multipart", "path"])
    if rnd.random() < 0.67 or view == "path":
        if view == "query":
            return [view, "assign", pick(rnd, _BASE_PATHS), _g_qpairs(rnd), pick(rnd, _CODINGS)]
        if view == "form":
            return [view, "assign", pick(rnd, _CTYPES), pick(rnd, _OLD_BODIES), pick(rnd, _CODINGS), _g_qpairs(rnd)]
        if view == "cookies":
            return [view, "assign", [pick(rnd, ["a=b", "x=y; z=w", ""]) for _ in range(rnd.randint(0, 2))], _g_cpairs(rnd),
                    pick(rnd, _CODINGS)]
        if view == "setcookies":
            return [view, "assign", [pick(rnd, ["a=b; Path=/", "x=y"]) for _ in range(rnd.randint(0, 2))],
                    [_g_setcookie(rnd) for _ in range(small(rnd, 3))]]
        if view == "multipart":
            r = rnd.random()
            boundary = None if r < 0.34 else pick(rnd, _BOUNDARIES) if r < 0.8 else pick(rnd, _BOUNDARIES_Q)
            return [view, "assign", boundary, pick(rnd, _OLD_BODIES),
                    [[_g_mp_name(rnd), pick(rnd, _MP_VALS) if rnd.random() < 0.5 else rbytes(rnd, 0, 12)] for _ in range(small(rnd, 4))],
                    pick(rnd, _CODINGS), pick(rnd, _MP_CT_EXTRA)]
        return [view, "assign", pick(rnd, _BASE_PATHS), [c for c in (_g_text(rnd, 1) for _ in range(small(rnd, 4))) if c]]
    if view == "query":
        return [view, "writeback", pick(rnd, ["/p", "/a/b;x", "/"]), _g_qpairs(rnd), rnd.randint(0, 7), pick(rnd, ["", "#f"])]
    if view == "form":
        return [view, "writeback", pick(rnd, _WB_FORM_CTYPES)[0], _g_qpairs(rnd), rnd.randint(0, 7), pick(rnd, _CODINGS)]
    if view == "cookies":
        return [view, "writeback", [[_g_simple_cookie(rnd) for _ in range(rnd.randint(1, 3))] for _ in range(rnd.randint(1, 3))],
                rnd.randint(0, 3)]
    if view == "setcookies":
        return [view, "writeback", [_g_simple_cookie(rnd) + [[pick(rnd, _WB_ATTRS) for _ in range(small(rnd, 4))]]
                                    for _ in range(rnd.randint(1, 3))], rnd.randint(0, 1)]
    return [view, "writeback", pick(rnd, _BOUNDARIES),
            [[pick(rnd, [b"k", b"field1", b"a b", b"\xc3\xa9"]), pick(rnd, [b"", b"v", b"value1", b"two words", b"\x00\xff", b"x--XXy"])]
             for _ in range(small(rnd, 3))], pick(rnd, _CODINGS)]


def run(ctx):
    runner.fast(ctx, build, check_case, ctx.n(QUICK_N, THOROUGH_N))


# ------------------------------------------------------------------ reference codecs (independent of mitmproxy/urllib)
_HEX = "0123456789ABCDEFabcdef"


def ref_pct_decode(b, plus=False):
    out = bytearray()
    i = 0
    while i < len(b):
        c = b[i:i + 1]
        if c == b"%" and len(b) - i >= 3 and chr(b[i + 1]) in _HEX and chr(b[i + 2]) in _HEX:
            out.append(int(b[i + 1:i + 3], 16))
            i += 3
            continue
        if plus and c == b"+":
            out += b" "
        else:
            out += c
        i += 1
    return bytes(out)


def ref_qs_decode(qs):
    """WHATWG application/x-www-form-urlencoded parser -> [(bytes, bytes)]"""
    if isinstance(qs, str):
        qs = qs.encode("utf-8", "surrogateescape")
    out = []
    for seq in qs.split(b"&"):
        if not seq:
            continue
        k, _, v = seq.partition(b"=")
        out.append((ref_pct_decode(k, True), ref_pct_decode(v, True)))
    return out


_UNRESERVED = b"ABCDEFGHIJKLMNOPQRSTUVWXYZabcdefghijklmnopqrstuvwxyz0123456789-._~"


def ref_qs_encode(pairs, style):
    """style bits: 1 = space as %20 instead of '+', 2 = lower-case hex, 4 = omit '=' for empty values"""
    def q(s):
        b = s.encode("utf-8", "surrogateescape")
        out = []
        for c in b:
            if c in _UNRESERVED:
                out.append(chr(c))
            elif c == 0x20 and not style & 1:
                out.append("+")
            else:
                out.append(("%%%02x" if style & 2 else "%%%02X") % c)
        return "".join(out)
    parts = []
    for k, v in pairs:
        if v == "" and style & 4 and k != "":
            parts.append(q(k))
        else:
            parts.append(q(k) + "=" + q(v))
    return "&".join(parts)


def ref_split_target(path):
    """request-target -> (path segments decoded, raw query or None, raw fragment or None)"""
    frag = None
    if "#" in path:
        path, frag = path.split("#", 1)
    query = None
    if "?" in path:
        path, query = path.split("?", 1)
    return path, query, frag


def ref_segments(p):
    return [ref_pct_decode(s.encode("utf-8", "surrogateescape")) for s in p.split("/")[1:]]


def ref_cookie_decode(values):
    out = []
    for v in values:
        for part in v.split(";"):
            part = part.strip(" \t")
            if not part:
                continue
            k, _, val = part.partition("=")
            out.append((k, val))
    return out


def ref_multipart_encode(boundary, pairs):
    out = []
    for k, v in pairs:
        out.append(b"--" + boundary + b'\r\nContent-Disposition: form-data; name="' + k + b'"\r\n\r\n' + v + b"\r\n")
    out.append(b"--" + boundary + b"--\r\n")
    return b"".join(out)


def ref_multipart_decode(boundary, body):
    """RFC 2046 5.1.1: delimiter = CRLF "--" boundary at the start of a line; -> [(name, value)] or None if malformed"""
    delim = b"\r\n--" + boundary
    data = b"\r\n" + body
    chunks = data.split(delim)
    parts = []
    closed = False
    for ch in chunks[1:]:
        if ch.startswith(b"--"):
            closed = True
            break
        # transport padding then CRLF
        m = re.match(rb"[ \t]*\r\n", ch)
        if not m:
            return None   # boundary text followed by other characters: not a delimiter line -> generator avoids this
        ch = ch[m.end():]
        if ch.startswith(b"\r\n"):
            head, val = b"", ch[2:]
        else:
            head, sep, val = ch.partition(b"\r\n\r\n")
            if not sep:
                return None
        nm = re.search(rb'(?i)content-disposition:[^\r\n]*?[; \t]name="([^"]*)"', head)
        parts.append((nm.group(1) if nm else None, val))
    if not closed:
        return None
    return parts


# ------------------------------------------------------------------ oracle
def _req(path="/", fields=(), content=b""):
    from mitmproxy import http
    return http.Request("example.com", 80, b"POST", b"http", b"", path.encode("utf-8", "surrogateescape"), b"HTTP/1.1",
                        http.Headers(fields), content, None, 0.0, 0.0)


def _resp(fields=()):
    from mitmproxy import http
    return http.Response(b"HTTP/1.1", 200, b"OK", http.Headers(fields), b"", None, 0.0, 0.0)


_SPECIAL = re.compile(r"""[&=;+%"\\,#?/\r\n\x00 ]|[^\x00-\x7e]""")


def _classes(strings):
    cl = set()
    for s in strings:
        if s is None:
            cl.add("none")
            continue
        if isinstance(s, bytes):
            s = s.decode("latin-1")
        if s == "":
            cl.add("empty")
        for ch, name in (("\r", "crlf"), ("\n", "crlf"), ('"', "quote"), ("\\", "backslash"), ("%", "percent"), ("+", "plus"),
                         ("&", "amp"), ("=", "eq"), (";", "semi"), (",", "comma"), (" ", "space"), ("--", "dashes")):
            if ch in s:
                cl.add(name)
        if not s.isascii():
            cl.add("non-ascii")
    return cl


_PAYLOAD = b"payload \xff\x00 of the message"


def _with_coding(r, coding, body):
    """put `body` on the message under Content-Encoding `coding` (stored encoded, as it would arrive from the wire)"""
    if coding:
        r.headers["content-encoding"] = coding
    r.content = body
    return r


def _check_add(ctx, viewname, view_of, r, pairs, k, v):
    """single-field edits through the live view: set one key, then add one pair; everything else must stay"""
    view_of(r)[k] = v
    want, done = [], False
    for p in pairs:
        if p[0] == k:
            if not done:
                want.append((k, v))
                done = True
        else:
            want.append(p)
    if not done:
        want.append((k, v))
    got = _items(view_of(r))
    if got != want:
        ctx.fail("edit-setitem:%s" % viewname, "view had %r; after view[%r] = %r it reads %r" % (pairs[:5], k, v, got[:6]))
        return
    try:
        view_of(r).add(k, v)
    except TypeError as e:
        ctx.fail("edit-add-raises:%s" % viewname, "view.add(%r, %r) raises TypeError: %s" % (k, v, e))
        return
    got = _items(view_of(r))
    if got != want + [(k, v)]:
        ctx.fail("edit-add:%s" % viewname, "view had %r; after .add(%r, %r) it reads %r" % (want[:5], k, v, got[:6]))


def _items(view):
    return [tuple(x) for x in view.items(multi=True)]


def _fail_rt(ctx, view, want, got, cl, extra=""):
    # the input class that matters goes into the bucket so that different root causes stay apart
    key = next((c for c in ("crlf", "quote", "backslash", "semi", "comma", "none", "empty", "dashes") if c in cl), "plain")
    ctx.fail("roundtrip:%s:%s" % (view, key), "%sassigned %r, view reads %r" % (extra, want[:6], got[:6]))


def check_case(case, ctx):
    view, mode = case[0], case[1]
    try:
        cl = globals()["_%s_%s" % (view, mode)](case, ctx)
    except AssertionError:
        raise
    except Exception as e:
        ctx.crash(e, "raises:%s:%s" % (view, mode))
        return
    cl = cl or set()
    for c in cl:
        ctx.cls("%s:%s" % (view, c))
    ctx.cls("%s:%s" % (view, mode))
    if cl:
        ctx.nt(case, None)
    else:
        ctx.cls("trivial")


# ---- query
def _query_assign(case, ctx):
    base, pairs = case[2], case[3]
    coding = case[4] if len(case) > 4 else None
    pairs = [tuple(p) for p in pairs]
    r = _with_coding(_req(base), coding, _PAYLOAD)
    p0, q0, f0 = ref_split_target(base)
    r.query = pairs
    got = _items(r.query)
    cl = _classes([x for p in pairs for x in p])
    if got != pairs:
        _fail_rt(ctx, "query", pairs, got, cl, "path %r -> %r: " % (base, r.path))
    else:
        _check_add(ctx, "query", lambda m: m.query, r, pairs, "zz", "1")
        r.query = pairs
    if r.get_content(strict=False) != _PAYLOAD:
        ctx.fail("view-touches-body:query", "body %r after assigning the query" % (r.get_content(strict=False),))
    p1, q1, f1 = ref_split_target(r.path)
    if ref_segments(p1) != ref_segments(p0) or (f1 or "") != (f0 or ""):
        ctx.fail("query-assign-changes-path", "path %r became %r" % (base, r.path))
    want = [(k.encode("utf-8", "surrogateescape"), v.encode("utf-8", "surrogateescape")) for k, v in pairs]
    if ref_qs_decode(q1 or "") != want:
        ctx.fail("query-wire-meaning", "assigned %r, path %r decodes (reference) to %r" % (pairs[:5], r.path, ref_qs_decode(q1 or "")[:5]))
    return cl | ({"pairs"} if pairs else set())


def _query_writeback(case, ctx):
    _, _, p, pairs, style, frag = case
    qs = ref_qs_encode(pairs, style)
    target = p + ("?" + qs if pairs else "") + frag
    r = _req(target)
    before = _items(r.query)
    r.query = before
    after = _items(r.query)
    if after != before:
        ctx.fail("writeback-view-changed:query", "path %r: view %r -> %r" % (target, before[:5], after[:5]))
    p1, q1, f1 = ref_split_target(r.path)
    if ref_qs_decode(q1 or "") != ref_qs_decode(qs) or ref_segments(p1) != ref_segments(ref_split_target(target)[0]) or (f1 or "") != frag.lstrip("#"):
        ctx.fail("writeback-meaning-changed:query", "path %r became %r" % (target, r.path))
    return _classes([x for pp in pairs for x in pp]) | {"style%d" % style}


# ---- urlencoded form
def _form_assign(case, ctx):
    _, _, ctype, old, coding, pairs = case
    pairs = [tuple(p) for p in pairs]
    fields = []
    if ctype:
        fields.append((b"Content-Type", ctype.encode()))
    r = _req("/", fields, b"")
    if coding:
        r.headers["content-encoding"] = coding
    r.content = old
    r.urlencoded_form = pairs
    got = _items(r.urlencoded_form)
    cl = _classes([x for p in pairs for x in p])
    if got != pairs:
        _fail_rt(ctx, "form", pairs, got, cl, "old body %r: " % (old,))
    else:
        _check_add(ctx, "form", lambda m: m.urlencoded_form, r, pairs, "zz", "1")
        r.urlencoded_form = pairs
    want = [(k.encode("utf-8", "surrogateescape"), v.encode("utf-8", "surrogateescape")) for k, v in pairs]
    body = r.get_content(strict=False)
    try:   # what a recipient reads: the body text under the charset the Content-Type declares now
        body = body.decode(_ct_charset(r.headers.get("content-type", "")) or "ascii").encode("utf-8", "surrogateescape")
    except (LookupError, UnicodeError):
        pass
    if ref_qs_decode(body) != want:
        ctx.fail("form-wire-meaning", "assigned %r, body %r decodes (reference) to %r" % (pairs[:5], body[:80], ref_qs_decode(body)[:5]))
    if ctype and "charset" in ctype.lower():
        cl.add("ctype-charset")
    if "x-www-form-urlencoded" not in r.headers.get("content-type", "").lower():
        ctx.fail("form-content-type", "content-type %r after assigning the form" % r.headers.get("content-type"))
    return cl | ({"pairs"} if pairs else set())


def _form_writeback(case, ctx):
    _, _, ctype, pairs, style, coding = case
    charset = dict(_WB_FORM_CTYPES).get(ctype, "ascii")
    qs = ref_qs_encode(pairs, style)                      # pure ASCII text
    body = qs.encode(charset)                             # ... as the client would put it on the wire under `charset`
    r = _req("/", [(b"Content-Type", ctype.encode())], b"")
    if coding:
        r.headers["content-encoding"] = coding
    r.content = body
    before = _items(r.urlencoded_form)
    r.urlencoded_form = before
    after = _items(r.urlencoded_form)
    if after != before:
        ctx.fail("writeback-view-changed:form", "Content-Type %r body %r: view %r -> %r (Content-Type now %r, body %r)"
                 % (ctype, body[:60], before[:5], after[:5], r.headers.get("content-type"), r.get_content(strict=False)[:60]))
    # meaning for a recipient: decode the body with the charset the Content-Type declares *now* (own reader), then parse
    now = _ct_charset(r.headers.get("content-type", "")) or "ascii"
    try:
        text_now = r.get_content(strict=False).decode(now)
    except (LookupError, UnicodeError):
        text_now = None
    if text_now is None or ref_qs_decode(text_now) != ref_qs_decode(qs):
        ctx.fail("writeback-meaning-changed:form", "Content-Type %r body %r became Content-Type %r body %r"
                 % (ctype, body[:60], r.headers.get("content-type"), r.get_content(strict=False)[:60]))
    return _classes([x for pp in pairs for x in pp]) | {"style%d" % style, "charset:" + charset}


def _ct_charset(ct):
    for p in ct.split(";")[1:]:
        k, eq, v = p.partition("=")
        if eq and k.strip(" \t").lower() == "charset":
            return v.strip(' \t"')
    return None


# ---- request cookies
def _cookies_assign(case, ctx):
    old, pairs = case[2], case[3]
    coding = case[4] if len(case) > 4 else None
    pairs = [tuple(p) for p in pairs]
    r = _with_coding(_req("/", [(b"Cookie", o.encode()) for o in old]), coding, _PAYLOAD)
    r.cookies = pairs
    got = _items(r.cookies)
    cl = _classes([x for p in pairs for x in p])
    if got != pairs:
        _fail_rt(ctx, "cookies", pairs, got, cl, "header %r: " % (r.headers.get_all("cookie"),))
    else:
        _check_add(ctx, "cookies", lambda m: m.cookies, r, pairs, "zz", "1")
        r.cookies = pairs
    if r.get_content(strict=False) != _PAYLOAD:
        ctx.fail("view-touches-body:cookies", "body %r after assigning cookies" % (r.get_content(strict=False),))
    if len(r.headers.get_all("cookie")) != 1:
        ctx.fail("cookies-header-count", "Cookie headers after assignment: %r" % (r.headers.get_all("cookie"),))
    return cl | ({"pairs"} if pairs else set())


def _cookies_writeback(case, ctx):
    _, _, headers, style = case
    sep = ["; ", ";", "; ", ";  "][style]   # RFC 6265 4.2.1 form and lenient variants without SP / with extra SP after ";"
    values = [sep.join("%s=%s" % (k, v) for k, v in h) for h in headers]
    r = _req("/", [(b"Cookie", v.encode()) for v in values])
    meaning0 = ref_cookie_decode(values)
    before = _items(r.cookies)
    if before != meaning0:
        ctx.cls("cookies:skipped-reference-reads-differently")   # not claimed by the statement
        return None
    r.cookies = before
    after = _items(r.cookies)
    if after != before:
        ctx.fail("writeback-view-changed:cookies", "headers %r: view %r -> %r" % (values, before, after))
    if ref_cookie_decode(r.headers.get_all("cookie")) != meaning0:
        ctx.fail("writeback-meaning-changed:cookies", "headers %r became %r" % (values, r.headers.get_all("cookie")))
    return {"headers%d" % len(values), "style%d" % style}


# ---- response cookies
def _setcookies_assign(case, ctx):
    from mitmproxy.net.http import cookies as mc
    _, _, old, cookies = case
    r = _resp([(b"Set-Cookie", o.encode()) for o in old])
    value = []
    want = []
    strings = []
    for name, val, attrs, as_obj in cookies:
        attrs = [tuple(a) for a in attrs]
        value.append((name, (val, mc.CookieAttrs(attrs) if as_obj else attrs)))
        want.append((name, val, tuple(attrs)))
        strings += [name, val] + [a[1] for a in attrs if a[1] is not None]
    r.cookies = value
    got = [(k, v[0], tuple(tuple(f) for f in v[1].fields)) for k, v in r.cookies.items(multi=True)]
    cl = _classes(strings)
    if any(a for _, _, a in want):
        cl.add("attrs")
    if got != want:
        _fail_rt(ctx, "setcookies", want, got, cl, "headers %r: " % (r.headers.get_all("set-cookie"),))
    if len(r.headers.get_all("set-cookie")) != len(cookies):
        ctx.fail("setcookies-header-count", "%d cookies assigned, headers %r" % (len(cookies), r.headers.get_all("set-cookie")))
    return cl | ({"pairs"} if cookies else set())


def ref_setcookie_decode(value):
    """RFC 6265 5.2 shape: name=value then ;-separated attributes -> (name, value, [(attr, value|None)])"""
    parts = value.split(";")
    k, _, v = parts[0].strip(" \t").partition("=")
    attrs = []
    for p in parts[1:]:
        p = p.strip(" \t")
        if not p:
            continue
        a, eq, av = p.partition("=")
        attrs.append((a.lower(), av if eq else None))
    return (k, v, attrs)


def _setcookies_writeback(case, ctx):
    _, _, cookies, style = case
    sep = ["; ", ";"][style]
    values = [sep.join(["%s=%s" % (k, v)] + [a if av is None else "%s=%s" % (a, av) for a, av in attrs]) for k, v, attrs in cookies]
    r = _resp([(b"Set-Cookie", v.encode()) for v in values])
    meaning0 = [ref_setcookie_decode(v) for v in values]
    before = list(r.cookies.items(multi=True))
    snap = [(k, v[0], tuple(tuple(f) for f in v[1].fields)) for k, v in before]
    if [(k, v, [(a.lower(), av) for a, av in at]) for k, v, at in snap] != meaning0:
        ctx.cls("setcookies:skipped-reference-reads-differently")   # not claimed by the statement
        return None
    r.cookies = before
    after = [(k, v[0], tuple(tuple(f) for f in v[1].fields)) for k, v in r.cookies.items(multi=True)]
    if after != snap:
        ctx.fail("writeback-view-changed:setcookies", "headers %r: view %r -> %r" % (values, snap, after))
    now = r.headers.get_all("set-cookie")
    if [ref_setcookie_decode(v) for v in now] != meaning0:
        ctx.fail("writeback-meaning-changed:setcookies", "headers %r became %r" % (values, now))
    return {"headers%d" % len(values), "attrs" if any(c[2] for c in cookies) else "noattrs"}


# ---- multipart
def _multipart_assign(case, ctx):
    boundary, old, pairs = case[2], case[3], case[4]
    coding = case[5] if len(case) > 5 else None
    extra = case[6] if len(case) > 6 else ""
    pairs = [tuple(p) for p in pairs]
    fields = []
    if boundary is not None:
        fields.append((b"Content-Type", b"multipart/form-data; " + extra.encode() + b"boundary=" + boundary.encode()))
    r = _with_coding(_req("/", fields, b""), coding, old)
    if boundary is not None:
        # not representable: a value that contains a full delimiter line
        for _, v in pairs:
            for line in re.split(rb"\r\n|\r|\n", v):
                if line.startswith(b"--" + boundary.encode()):
                    ctx.cls("multipart:skipped-delimiter-line")
                    return None
    r.multipart_form = pairs
    got = _items(r.multipart_form)
    cl = _classes([x for p in pairs for x in p])
    bclass = "random-boundary" if boundary is None else "special-boundary" if re.search(r"[^A-Za-z0-9._-]", boundary) else "plain-boundary"
    cl.add(bclass)
    if got != pairs:
        mid = boundary is not None and any((b"--" + boundary.encode()) in v for _, v in pairs)
        if bclass == "special-boundary":
            ctx.fail("multipart:boundary-percent-encoded", "boundary %r: assigned %r, view reads %r, body %r" % (boundary, pairs[:4], got[:4], r.content[:120]))
        elif mid:
            ctx.fail("multipart:boundary-inside-line", "boundary %r: assigned %r, view reads %r" % (boundary, pairs[:4], got[:4]))
        elif any(b"\r" in v or b"\n" in v for _, v in pairs):
            ctx.fail("multipart:linebreaks-in-value", "assigned %r, view reads %r" % (pairs[:4], got[:4]))
        else:
            _fail_rt(ctx, "multipart", pairs, got, cl)
    elif bclass != "special-boundary":
        _check_add(ctx, "multipart", lambda m: m.multipart_form, r, pairs, b"zz", b"1")
    if coding:
        cl.add("coding:" + coding)
    return cl | ({"pairs"} if pairs else set())


def _multipart_writeback(case, ctx):
    boundary, pairs = case[2], case[3]
    coding = case[4] if len(case) > 4 else None
    pairs = [tuple(p) for p in pairs]
    b = boundary.encode()
    body = ref_multipart_encode(b, pairs)
    if ref_multipart_decode(b, body) != pairs:
        raise AssertionError("reference multipart codec does not round-trip %r" % (pairs,))
    r = _with_coding(_req("/", [(b"Content-Type", b"multipart/form-data; boundary=" + b)], b""), coding, body)
    before = _items(r.multipart_form)
    mid = any((b"--" + b) in v for _, v in pairs)
    if before != pairs:
        ctx.fail("multipart:boundary-inside-line" if mid else "multipart-parse-differs",
                 "body %r: view %r, reference %r" % (body[:160], before, pairs))
        return {"mid"} if mid else set()
    r.multipart_form = before
    after = _items(r.multipart_form)
    if after != before:
        ctx.fail("writeback-view-changed:multipart", "view %r -> %r" % (before, after))
    meaning = ref_multipart_decode(b, r.content)
    if meaning != pairs:
        if meaning is not None and [(k, v + b"\r\n") for k, v in pairs] == meaning:
            ctx.fail("writeback-meaning-changed:multipart:crlf-appended",
                     "standard body %r rewritten as %r: every value now ends in CRLF for an RFC 2046 parser" % (body[:100], r.content[:160]))
        else:
            ctx.fail("writeback-meaning-changed:multipart", "body %r became %r (reference reads %r)" % (body[:100], r.content[:160], meaning))
    return _classes([x for p in pairs for x in p]) | {"pairs"}


# ---- path components
def _path_assign(case, ctx):
    _, _, base, comps = case
    r = _req(base)
    p0, q0, f0 = ref_split_target(base)
    r.path_components = comps
    got = list(r.path_components)
    cl = _classes(comps)
    if got != list(comps):
        _fail_rt(ctx, "path", list(comps), got, cl, "path %r -> %r: " % (base, r.path))
    p1, q1, f1 = ref_split_target(r.path)
    want = [c.encode("utf-8", "surrogateescape") for c in comps]
    # last segment may carry the old ;params
    segs = ref_segments(p1.split(";")[0] if ";" in p0.rsplit("/", 1)[-1] else p1)
    if [s for s in segs if s] != want:
        ctx.fail("path-wire-meaning", "assigned %r, path %r has segments %r" % (comps[:4], r.path, segs[:6]))
    if ref_qs_decode(q1 or "") != ref_qs_decode(q0 or "") or (f1 or "") != (f0 or ""):
        ctx.fail("path-assign-changes-query", "path %r became %r" % (base, r.path))
    return cl | ({"comps"} if comps else set())
