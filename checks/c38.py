"""C38 — flows from older mitmproxy versions load correctly.

Modes of a case:
  "dump":   one of the shipped old-format files (test/mitmproxy/data/dumpfile-*.mitm and data/flows/*.mitm; format
            versions (0,11) (0,18) 7 10 11 18 20 21), decoded into its tnetstring records, optionally with field-level
            mutations that keep the historical shape (request/response body, path, method, port, host, header values,
            status, reason, client address/timestamp, TCP/WebSocket message contents, and for formats <= 8 the per-message
            replay markers request.is_replay / response.is_replay in all four combinations, and falsy-but-present boundary
            values 0 / 0.0 / b"" / [] / {} / False for timestamps, port, status, bodies, header lists, marker, metadata),
            re-encoded and loaded.
            Oracle: loading succeeds; one flow per record, in order; every flow is a *valid* current flow (each attribute
            has its declared type — flowgen.type_errors); every mutated field shows up at the corresponding attribute of the
            corresponding flow; Flow.from_state(get_state()).get_state() == get_state(); save -> load reproduces the state.
            dumpfile-010 (format (0,10), older than anything supported) must be rejected with FlowReadException.
  "down":   a generated current flow (flowgen; HTTP/WebSocket/TCP for every version, UDP/DNS for >= 18) is converted
            *backwards* by harness-side inverse converters into the state shape of format version N in 12..21 (shapes
            cross-checked against the real v11/v18/v20 records), written as a file and loaded.
            Oracle: loaded state == the original state with exactly the information erased that version N cannot represent
            (normalise_N: marker text, comment, injected flag, timestamp_created, proxy_mode, transport protocol);
            N == 21: migrate_flow is the identity; re-saving and loading again reproduces the state.
  "future": current-shape state with version > 21 -> FlowReadException whose text names the version; unknown small/negative
            int versions -> FlowReadException.
"""
import copy
import io
import os

from hypothesis import strategies as st

import flowgen as fg
from runner import REPO, HarnessError, repo_frame

from mitmproxy import exceptions
from mitmproxy import flow as mflow
from mitmproxy.io import FlowReader, FlowWriter, compat, tnetstring

PID = "C38"
LEVEL = "exploration"
TECHNIQUE = "shipped old dumps + field mutations (metamorphic), generated flows down-converted to each old format version vs. normalised expectation"
RULE = ("dump: shipped file x generated shape-preserving field mutations, non-trivial = >=1 mutation applied, distinct by "
        "(file, mutations); down: generated flow x target version 12..21 x shape flags, every case non-trivial, distinct by "
        "(version, flags, state digest); future: distinct by version value")
ASSUMPTIONS = ["the inverse converters reproduce the historical state shapes (key sets checked against the shipped v11/v18/v20 records)",
               "UDP/DNS flows did not exist before format version 18; backups are not generated (a backup embeds a same-version state)",
               "connection ids invented by convert_4_5 (uuid4) are not compared across loads"]
LEVEL_TEXT = "exploration: all shipped dumps are covered, mutations and synthetic old-version states are sampled"
LEVEL_NOTE = "format versions below 12 are covered only by the shipped dumps (0.11, 0.18, 7, 10, 11)"
QUICK_N, THOROUGH_N = 19_000, 800_000

CUR = 21
DATA = os.path.join(REPO, "test", "mitmproxy", "data")
FILES = ["dumpfile-011.mitm", "dumpfile-018.mitm", "dumpfile-019.mitm", "dumpfile-7-websocket.mitm", "dumpfile-7.mitm",
         "dumpfile-10.mitm", "dumpfile-19.mitm", "flows/corrupted_gzip_body.mitm", "flows/diff_data.mitm",
         "flows/error_log.mitm", "flows/event_stream.mitm", "flows/incomplete_log.mitm", "flows/successful_log.mitm",
         "flows/websocket.mitm", "dumpfile-010.mitm"]
_cache = {}


def records(name):
    if name not in _cache:
        with open(os.path.join(DATA, name), "rb") as fh:
            data = fh.read()
        bio, out = io.BytesIO(data), []
        while bio.tell() < len(data):
            out.append(tnetstring.load(bio))
        _cache[name] = out
    return copy.deepcopy(_cache[name])


def _reset_compat():
    compat._websocket_handshakes.clear()
    compat.client_connections.clear()
    compat.server_connections.clear()


def _k(d, key):
    """the spelling of `key` used by this record (0.11 files have bytes keys)"""
    if key in d:
        return key
    if isinstance(key, str) and key.encode() in d:
        return key.encode()
    return None


def _get(d, key, default=None):
    k = _k(d, key)
    return default if k is None else d[k]


def _load(data):
    _reset_compat()
    return list(FlowReader(io.BytesIO(data)).stream())


# ------------------------------------------------------------------------------------------------ dump mode
# (section, key spellings across formats, attribute of the loaded flow, falsy-but-present values)
_BOUNDARY = [
    ("request", ("content", "body"), "content", [b""]),
    ("request", ("path",), "path", [b""]),
    ("request", ("method",), "method", [b""]),
    ("request", ("port",), "port", [0]),
    ("request", ("timestamp_start",), "timestamp_start", [0, 0.0]),
    ("request", ("timestamp_end",), "timestamp_end", [0, 0.0]),
    ("request", ("headers",), "headers", [[]]),
    ("response", ("content", "body"), "content", [b""]),
    ("response", ("reason", "msg"), "reason", [b""]),
    ("response", ("status_code", "code"), "status_code", [0]),
    ("response", ("timestamp_start",), "timestamp_start", [0, 0.0]),
    ("response", ("timestamp_end",), "timestamp_end", [0, 0.0]),
    ("response", ("headers",), "headers", [[]]),
    ("client_conn", ("timestamp_start",), "timestamp_start", [0, 0.0]),
    ("client_conn", ("timestamp_end",), "timestamp_end", [0, 0.0]),
    ("flow", ("marked",), "marked", [""]),
    ("flow", ("metadata",), "metadata", [{}]),
    ("flow", ("intercepted",), "intercepted", [False]),
    ("response", ("timestamp_start",), "timestamp_start", [0, 0.0]),
]
def _apply_dump_mut(recs, op, expect):
    """mutate one record in place, keeping its shape; append (flow index, description, getter, value) to expect"""
    i = op[1] % len(recs)
    r = recs[i]
    typ = _get(r, "type")
    typ = typ.decode() if isinstance(typ, bytes) else typ
    what = op[0]
    if what in ("req", "resp"):
        if typ != "http":
            return False
        m = _get(r, "request" if what == "req" else "response")
        if not isinstance(m, dict):
            return False
        field, val = op[2], op[3]
        if field == "status":
            key = _k(m, "status_code") or _k(m, "code")
        elif field == "reason":
            key = _k(m, "reason") or _k(m, "msg")
        else:
            key = _k(m, field)
        if key is None:
            return False
        if field == "host":
            val = val.encode() if isinstance(m[key], bytes) else val
            m[key] = val
            expect.append((i, "request.host", lambda f: f.request.data.host, op[3]))
        elif field == "hvalue":
            if not m[key]:
                return False
            j = op[4] % len(m[key])
            m[key][j] = [m[key][j][0], val]
            if what == "req":
                expect.append((i, "request.headers[%d]" % j, lambda f: f.request.headers.fields[j][1], val))
            else:
                expect.append((i, "response.headers[%d]" % j, lambda f: f.response.headers.fields[j][1], val))
            return True
        else:
            m[key] = val
            attr = {"content": "content", "path": "path", "method": "method", "port": "port", "status": "status_code",
                    "reason": "reason", "timestamp_start": "timestamp_start"}[field]
            if what == "req":
                expect.append((i, "request." + attr, lambda f: getattr(f.request.data, attr), val))
            else:
                expect.append((i, "response." + attr, lambda f: getattr(f.response.data, attr), val))
        return True
    if what == "boundary":
        # a PRESENT value that happens to be falsy (0, 0.0, b"", "", [], False) must survive migration like any other
        # value: it is not the same as None / a missing key
        sect, names, attr, values = _BOUNDARY[op[2] % len(_BOUNDARY)]
        val = values[op[3] % len(values)]
        if sect in ("request", "response"):
            if typ != "http":
                return False
            m = _get(r, sect)
            if not isinstance(m, dict):
                return False
            key = next((_k(m, n) for n in names if _k(m, n) is not None), None)
            if key is None:
                return False
            if sect == "response" and attr == "timestamp_end" and _get(m, "timestamp_start") is None:
                # formats <= 13 may lack response timestamps altogether (mitmproxy issue 4576); migration then
                # invents both, so a lone timestamp_end next to a missing timestamp_start is not a realistic record
                return False
            m[key] = copy.deepcopy(val)
            if attr == "headers":
                expect.append((i, sect + ".headers(all)", lambda f: [list(x) for x in getattr(f, sect).headers.fields], []))
            else:
                expect.append((i, "%s.%s" % (sect, attr), lambda f: getattr(getattr(f, sect).data, attr), val))
            return True
        if sect == "client_conn":
            if typ == "websocket":
                return False
            cc = _get(r, "client_conn")
            key = _k(cc, names[0]) if isinstance(cc, dict) else None
            if key is None:
                return False
            cc[key] = val
            expect.append((i, "client_conn." + attr, lambda f: getattr(f.client_conn, attr), val))
            return True
        if sect == "flow":
            if typ == "websocket":
                return False
            key = _k(r, names[0])
            if key is None:
                return False
            if names[0] == "marked":
                # formats <= 12 store a bool, later ones the marker text; "not marked" must stay "not marked"
                r[key] = False if isinstance(r[key], bool) else ""
                expect.append((i, "marked", lambda f: f.marked, ""))
            else:
                r[key] = copy.deepcopy(val)
                expect.append((i, attr, lambda f: getattr(f, attr), val))
            return True
        raise HarnessError("bad boundary table entry %r" % (sect,))
    if what == "replay":
        # formats <= 8 mark replays per message: request.is_replay (the request was re-sent by client replay) and
        # response.is_replay (the response was served by server replay).  The current format has one flow-level
        # marker; its expected value is derived here from the OLD format's meaning, not from compat.py.
        ver = _get(r, "version")
        if typ != "http" or not (isinstance(ver, list) or (isinstance(ver, int) and ver <= 8)):
            return False
        rq, rs = _get(r, "request"), _get(r, "response")
        if not isinstance(rq, dict) or _k(rq, "is_replay") is None:
            return False
        bytes_keys = isinstance(_k(rq, "is_replay"), bytes)
        req_flag, resp_flag = bool(op[2]), bool(op[3]) and isinstance(rs, dict)
        rq[_k(rq, "is_replay")] = req_flag
        if isinstance(rs, dict):
            rs[_k(rs, "is_replay") or (b"is_replay" if bytes_keys else "is_replay")] = resp_flag
        if req_flag and resp_flag:
            allowed = ("request", "response")   # both happened; the single new marker can name only one of them
        elif req_flag:
            allowed = ("request",)
        elif resp_flag:
            allowed = ("response",)
        else:
            allowed = (None,)
        expect.append((i, "is_replay", lambda f: f.is_replay if f.is_replay not in allowed else allowed[0], allowed[0]))
        return True
    if what == "client":
        if typ == "websocket":
            return False  # format-7 WebSocketFlow records are merged into their handshake flow; its connection data wins
        cc = _get(r, "client_conn")
        if not isinstance(cc, dict):
            return False
        if op[2] == "timestamp_start":
            key = _k(cc, "timestamp_start")
            if key is None:
                return False
            cc[key] = op[3]
            expect.append((i, "client_conn.timestamp_start", lambda f: f.client_conn.timestamp_start, op[3]))
            return True
        # address: [host, port] directly, or {"address": [host, port], "use_ipv6": ...} in the oldest files
        key = _k(cc, "address") or _k(cc, "peername")
        if key is None or not cc[key]:
            return False
        a = cc[key]
        inner = a[_k(a, "address")] if isinstance(a, dict) else a
        host, port = op[3]
        inner[0] = host.encode() if isinstance(inner[0], bytes) else host
        inner[1] = port
        expect.append((i, "client_conn.peername", lambda f: list(f.client_conn.peername[:2]), [host, port]))
        return True
    if what == "msg":
        ms = _get(r, "messages")
        if typ == "http":
            w = _get(r, "websocket")
            ms = _get(w, "messages") if isinstance(w, dict) else None
        if not ms:
            return False
        j = op[2] % len(ms)
        if typ == "tcp":
            ms[j][1] = op[3]
            expect.append((i, "messages[%d].content" % j, lambda f: f.messages[j].content, op[3]))
        else:
            # old websocket records / websocket data: [type, from_client, content, ...]; text frames of format <= 11
            # carry str content
            val = op[3]
            if isinstance(ms[j][2], str):
                val = val.decode("latin-1")
                ms[j][2] = val
                expect.append((i, "websocket.messages[%d].content(text)" % j,
                               lambda f: (lambda c: c if isinstance(c, str) else c.decode("utf-8"))(f.websocket.messages[j].content), val))
            else:
                ms[j][2] = val
                expect.append((i, "websocket.messages[%d].content" % j, lambda f: f.websocket.messages[j].content, val))
        return True
    raise HarnessError("unknown dump mutation %r" % (op,))


def check_dump(case, ctx):
    name = FILES[case["file"] % len(FILES)]
    recs = records(name)
    expect = []
    applied = [op for op in case["muts"] if _apply_dump_mut(recs, op, expect)]
    data = b"".join(tnetstring.dumps(r) for r in recs)
    label = name.replace("flows/", "").replace(".mitm", "")
    try:
        flows = _load(data)
    except exceptions.FlowReadException as e:
        if name == "dumpfile-010.mitm":
            ctx.cls("dump:010-rejected")
            ctx.nt(("010", repr(case["muts"])))
            return
        ctx.fail("old-file-rejected:" + label, "muts=%r: %r cause=%r" % (applied, e, e.__cause__))
        return
    except Exception as e:
        ctx.fail("old-file-crash:%s:%s@%s" % (label, type(e).__name__, repo_frame(e)), "muts=%r: %r" % (applied, e))
        return
    if name == "dumpfile-010.mitm":
        ctx.fail("unsupported-version-accepted", "format (0, 10) loaded %d flows" % len(flows))
        return
    if applied:
        ctx.nt((name, repr(applied)), "dump-mutated:" + label)
    else:
        ctx.cls("dump-whole:" + label)
    if len(flows) != len(recs):
        ctx.fail("old-file-count:" + label, "%d records, %d flows" % (len(recs), len(flows)))
        return
    for idx, f in enumerate(flows):
        errs = fg.type_errors(f)
        if errs:
            ctx.fail("migrated-flow-invalid:%s:%s" % (label, errs[0].split(":")[0].split("[")[0]), "flow %d: %s" % (idx, "; ".join(errs[:4])))
    last = {}
    for e in expect:  # a later mutation of the same field overrides an earlier one
        last[(e[0], e[1])] = e
    for idx, what, getter, val in last.values():
        try:
            got = getter(flows[idx])
        except Exception as e:
            ctx.fail("mutated-field-unreadable:%s:%s" % (label, what.split("[")[0]), "flow %d %s: %r" % (idx, what, e))
            continue
        if got != val:
            ctx.fail("mutated-field-lost:%s:%s" % (label, what.split("[")[0]), "flow %d %s: record has %r, flow has %r" % (idx, what, val, got))
    _stability(flows, ctx, label)


def _stability(flows, ctx, label):
    states = [fg.listify(f.get_state()) for f in flows]
    for f, s in zip(flows, states):
        try:
            again = fg.listify(mflow.Flow.from_state(copy.deepcopy(s)).get_state())
        except Exception as e:
            ctx.fail("state-not-reloadable:%s:%s" % (label, type(e).__name__), repr(e))
            continue
        if again != s:
            ctx.fail("state-unstable:" + label, "from_state(get_state()).get_state() differs")
    buf = io.BytesIO()
    w = FlowWriter(buf)
    for f in flows:
        w.add(f)
    try:
        again = [fg.listify(f.get_state()) for f in _load(buf.getvalue())]
    except Exception as e:
        ctx.fail("resaved-not-loadable:%s:%s" % (label, type(e).__name__), repr(e))
        return
    if again != states:
        ctx.fail("resave-changes-state:" + label, "state after save+load differs from the migrated state")


# ------------------------------------------------------------------------------------------------ down mode
def down(s, n, flags):
    """(state in the shape of format version n, expected current state after migration)"""
    s = copy.deepcopy(s)
    exp = copy.deepcopy(s)
    conns = [s["client_conn"], s["server_conn"]]
    if n <= 20:
        for c in conns:
            if c["tls_version"] == "QUICv1":
                c["tls_version"] = "QUIC"
    if n <= 19:
        for c in conns:
            c["state"] = flags["state"]
    if n <= 18:
        cc, sc = s["client_conn"], s["server_conn"]
        cc["address"] = cc.pop("peername")
        cc["tls_extensions"] = [] if flags["ext_list"] else None
        sc["ip_address"] = sc.pop("peername")
        sc["source_address"] = sc.pop("sockname")
        sc["via2"] = sc.pop("via")
        sc["via"] = None
        for c, e in ((cc, exp["client_conn"]), (sc, exp["server_conn"])):
            c["tls_established"] = c["timestamp_tls_setup"] is not None
            c["cipher_name"] = c.pop("cipher")
            if flags["drop_transport"] or n < 18:
                c.pop("transport_protocol")
                e["transport_protocol"] = "tcp"
        if flags["sni_true"] and sc["address"] and sc["sni"] is not None and sc["sni"] == sc["address"][0]:
            sc["sni"] = True
        if flags["bytes_host"]:
            for c in (cc, sc):
                for name in ("address", "sockname", "ip_address", "source_address"):
                    if c.get(name):
                        c[name][0] = c[name][0].encode("utf-8")
        if flags["drop_backup"] or n < 18:
            s.pop("backup")
    if n <= 17:
        s["client_conn"].pop("proxy_mode")
        exp["client_conn"]["proxy_mode"] = "regular"
    if n <= 16:
        s["mode"] = flags["mode"]
    if n <= 15:
        s.pop("timestamp_created")
        exp["timestamp_created"] = (s["request"] if "request" in s else s["client_conn"])["timestamp_start"]
    if n <= 14 and s.get("websocket"):
        s["websocket"]["messages"] = [m[:5] for m in s["websocket"]["messages"]]
        for m in exp["websocket"]["messages"]:
            m[5] = False
    if n <= 13:
        s.pop("comment")
        exp["comment"] = ""
        if flags["resp_ts_none"] and s.get("response") and s["request"]["timestamp_end"] is not None:
            s["response"]["timestamp_start"] = None
            s["response"]["timestamp_end"] = None
            exp["response"]["timestamp_start"] = s["request"]["timestamp_end"]
            exp["response"]["timestamp_end"] = s["request"]["timestamp_end"] + 1
    if n <= 12:
        s["marked"] = bool(s["marked"])
        exp["marked"] = ":default:" if s["marked"] else ""
    s["version"] = n
    return s, exp


def check_down(case, ctx):
    n = case["version"]
    desc = case["flow"]
    kind = fg.kind_of(desc)
    f = fg.build(desc)
    cur = fg.listify(f.get_state())
    old, exp = down(cur, n, case["flags"])
    ctx.nt((n, repr(sorted(case["flags"].items())), repr(cur)), "down:v%d:%s" % (n, kind))
    if n == CUR:
        before = copy.deepcopy(old)
        try:
            out = compat.migrate_flow(old)
        except Exception as e:
            ctx.fail("current-version-migration-raises:" + type(e).__name__, repr(e))
            return
        if out != before:
            ctx.fail("current-version-migration-not-identity", fg_diff(before, out))
    data = tnetstring.dumps(old)
    try:
        flows = _load(data)
    except exceptions.FlowReadException as e:
        ctx.fail("old-state-rejected:v%d:%s" % (n, kind), "%r cause=%r" % (e, e.__cause__))
        return
    except Exception as e:
        ctx.fail("old-state-crash:v%d:%s@%s" % (n, type(e).__name__, repo_frame(e)), repr(e))
        return
    if len(flows) != 1:
        ctx.fail("old-state-count:v%d" % n, "%d flows" % len(flows))
        return
    got = fg.listify(flows[0].get_state())
    if got != exp:
        ctx.fail("migrated-state-differs:v%d:%s:%s" % (n, kind, fg_field(exp, got)), fg_diff(exp, got))
    errs = fg.type_errors(flows[0])
    if errs:
        ctx.fail("migrated-flow-invalid:v%d:%s" % (n, errs[0].split(":")[0].split("[")[0]), "; ".join(errs[:4]))
    _stability(flows, ctx, "v%d" % n)


def fg_diff(a, b, path=""):
    if isinstance(a, dict) and isinstance(b, dict):
        for k in sorted(set(a) | set(b), key=repr):
            if k not in a or k not in b:
                return "%s.%s only on one side: %r / %r" % (path, k, a.get(k, "<absent>"), b.get(k, "<absent>"))
            d = fg_diff(a[k], b[k], "%s.%s" % (path, k))
            if d:
                return d
        return None
    if isinstance(a, list) and isinstance(b, list) and len(a) == len(b):
        for i, (x, y) in enumerate(zip(a, b)):
            d = fg_diff(x, y, "%s[%d]" % (path, i))
            if d:
                return d
        return None
    return None if (a == b and type(a) is type(b)) or (a == b and isinstance(a, (int, float)) and isinstance(b, (int, float))) \
        else "%s: expected %r, got %r" % (path, a, b)


def fg_field(a, b):
    d = fg_diff(a, b) or "?"
    p = d.split(":", 1)[0].split(" ")[0]
    return ".".join(x.split("[")[0] for x in p.split(".") if x)[:40]


# ------------------------------------------------------------------------------------------------ future mode
def check_future(case, ctx):
    v = case["version"]
    f = fg.build(case["flow"])
    s = fg.listify(f.get_state())
    s["version"] = v
    newer = isinstance(v, int) and v > CUR
    ctx.nt(("future", v), "future:newer" if newer else "future:unknown-int")
    try:
        flows = _load(tnetstring.dumps(s))
    except exceptions.FlowReadException as e:
        if newer and str(v) not in str(e):
            ctx.fail("future-version-error-not-explanatory", "version %r: message %r does not name the version" % (v, str(e)))
        return
    except Exception as e:
        ctx.fail("future-version-crash:%s@%s" % (type(e).__name__, repo_frame(e)), "version %r: %r" % (v, e))
        return
    ctx.fail("unknown-version-accepted:" + ("newer" if newer else "unknown"), "version %r loaded %d flows" % (v, len(flows)))


# ------------------------------------------------------------------------------------------------ strategy
_hostname = st.one_of(st.sampled_from(["example.com", "127.0.0.1", "a.b.example.org", "localhost"]),
                      st.lists(st.text(alphabet="abcdefghijklmnopqrstuvwxyz", min_size=1, max_size=6), min_size=1, max_size=3).map(".".join))
_rec = st.integers(0, 6)
_body = st.one_of(fg.small_binary, st.binary(max_size=40))
_dump_mut = st.one_of(
    st.tuples(st.sampled_from(["req", "resp"]), _rec, st.just("content"), _body),
    st.tuples(st.just("req"), _rec, st.just("path"), st.one_of(st.sampled_from([b"/", b"/x?y=1", b"*"]), fg.small_binary)),
    st.tuples(st.just("req"), _rec, st.just("method"), st.sampled_from([b"GET", b"POST", b"PUT", b"X"])),
    st.tuples(st.just("req"), _rec, st.just("port"), fg.port),
    st.tuples(st.just("req"), _rec, st.just("host"), _hostname),
    st.tuples(st.sampled_from(["req", "resp"]), _rec, st.just("hvalue"), fg.small_binary, st.integers(0, 30)),
    st.tuples(st.just("resp"), _rec, st.just("status"), st.integers(100, 599)),
    st.tuples(st.just("resp"), _rec, st.just("reason"), fg.small_binary),
    st.tuples(st.just("req"), _rec, st.just("timestamp_start"), fg.ts),
    st.tuples(st.just("client"), _rec, st.just("timestamp_start"), fg.ts),
    st.tuples(st.just("client"), _rec, st.just("address"), st.tuples(_hostname, fg.port).map(list)),
    st.tuples(st.just("msg"), _rec, st.integers(0, 30), st.binary(max_size=12).filter(lambda b: True)),
    st.tuples(st.just("replay"), _rec, st.booleans(), st.booleans()),
    st.tuples(st.just("replay"), _rec, st.booleans(), st.booleans()),
    st.tuples(st.just("boundary"), _rec, st.integers(0, 18), st.integers(0, 1)),
    st.tuples(st.just("boundary"), _rec, st.integers(0, 18), st.integers(0, 1)),
    st.tuples(st.just("boundary"), _rec, st.integers(0, 18), st.integers(0, 1)),
).map(list)
_flags = st.fixed_dictionaries({"state": st.sampled_from([0, 3]), "ext_list": st.booleans(), "drop_transport": st.booleans(),
                                "sni_true": st.booleans(), "bytes_host": st.booleans(), "drop_backup": st.booleans(),
                                "mode": st.sampled_from(["regular", "transparent", "upstream"]), "resp_ts_none": st.booleans()})


def strategy(ctx):
    pool = fg.Pool(ctx.shard_seed, n=32)
    old_kinds = fg.flows(kinds=("http", "ws", "tcp"), backup=False, pool=pool)
    all_kinds = fg.flows(backup=False, pool=pool)
    # the seven dumpfile-* files (formats 0.11 .. 20) are drawn three times as often as the data/flows/*.mitm files
    dump = st.fixed_dictionaries({"mode": st.just("dump"), "file": st.sampled_from(list(range(7)) * 3 + list(range(7, len(FILES)))),
                                  "muts": st.lists(_dump_mut, max_size=4)})
    # formats <= 8 (per-message replay markers): the four marker combinations on the files that have them
    replay = st.tuples(st.just("replay"), _rec, st.booleans(), st.booleans()).map(list)
    dump_replay = st.fixed_dictionaries({"mode": st.just("dump"), "file": st.sampled_from([0, 1, 2, 3]),
                                         "muts": st.tuples(replay, st.lists(_dump_mut, max_size=2)).map(lambda t: [t[0]] + t[1])})
    # falsy-but-present boundary values on the old dumps (one or two per case, plus other mutations)
    boundary = st.tuples(st.just("boundary"), _rec, st.integers(0, len(_BOUNDARY) - 1), st.integers(0, 1)).map(list)
    dump_boundary = st.fixed_dictionaries({"mode": st.just("dump"), "file": st.sampled_from([0, 1, 3, 4, 5, 6, 2]),
                                           "muts": st.tuples(st.lists(boundary, min_size=1, max_size=2), st.lists(_dump_mut, max_size=2)).map(lambda t: t[0] + t[1])})
    down_old = st.fixed_dictionaries({"mode": st.just("down"), "flow": old_kinds, "version": st.sampled_from([12, 13, 14, 15, 16, 17]), "flags": _flags})
    down_new = st.fixed_dictionaries({"mode": st.just("down"), "flow": all_kinds, "version": st.sampled_from([18, 19, 20, 21]), "flags": _flags})
    future = st.fixed_dictionaries({"mode": st.just("future"), "flow": fg.flows(small=True, backup=False, pool=pool),
                                    "version": st.one_of(st.integers(22, 40), st.sampled_from([100, 10 ** 6, 2 ** 70, 0, 1, 2, 3, -1, -21]))})
    return st.one_of(dump, dump, dump_replay, dump_boundary, down_old, down_old, down_new, down_new, future)


def check_case(case, ctx):
    try:
        if case["mode"] == "dump":
            check_dump(case, ctx)
        elif case["mode"] == "down":
            check_down(case, ctx)
        else:
            check_future(case, ctx)
    finally:
        _reset_compat()
