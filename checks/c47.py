"""C47 — flow edits through mitmweb (PUT /flows/<id>) are atomic.

Generator: an edit document is generated as an *ordered list of entries* (section, key, value) mixing valid values with
invalid ones (unknown fields at both levels, non-numeric ports/status codes, header lists with wrong arity / non-string
items / non-list values, non-encodable text, non-dict sections, wrong value types) at every position; it is sent as JSON
(or, for a few cases, as a malformed/mis-typed body) with valid credentials + XSRF to the real tornado server
(lib/webharness.py) for a flow of a generated kind (HTTP with/without response, with a pre-existing backup, websocket,
with trailers, TCP, DNS).

Oracle: a transactional reference model.  The document is applied entry by entry, in document order, through the public
message attributes to a *scratch copy* of the flow.  If every entry applies, the edit is valid and the real flow must end
up in exactly the scratch copy's state ("applies completely").  If any entry is unknown or raises, the edit is invalid
and the real flow's state (including its backup) must be identical to the state before the request.
"""
import copy
import json

from hypothesis import strategies as st

import webharness
from runner import HarnessError

PID = "C47"
LEVEL = "exploration"
TECHNIQUE = "Hypothesis edit-document generation vs. transactional reference model (all-or-nothing application to a scratch copy)"
RULE = ("histories of 1-4 requests on one flow (PUT edits, occasional revert; entries may put a field back to its pristine value); "
        "each edit: documents as ordered entry lists over request/response/top-level keys with valid and invalid values at every "
        "position, crossed with flow kinds (http, no response, pre-existing backup, websocket, trailers, tcp, dns) and body "
        "forms (json, wrong content type, malformed json); non-trivial = invalid document whose earlier entries already "
        "changed the scratch copy when the invalid entry was reached, or a flow with a pre-existing backup; distinct by "
        "(flow kind, document)")
ASSUMPTIONS = [
    "the per-field meaning of an edit is the public attribute setter (request.method = str(v), port = int(v), headers "
    "replaced pairwise, text setter for content); only the all-or-nothing behaviour of the PUT handler is under test",
    "request/response sections are not generated for DNS flows (the web UI cannot edit them; the handler has no defined meaning)",
]
LEVEL_TEXT = "Random exploration of edit documents against a transactional reference model; the real server and flow objects are used."
LEVEL_NOTE = "message attribute setters, flow.get_state() as the observation of 'the flow', loopback transport"
QUICK_N = 8_000   # histories of 1-4 requests (about 2.3 PUTs each)
THOROUGH_N = 400_000

REQ_STR = ("method", "scheme", "host", "path", "http_version")
KINDS = ("http", "http", "http-noresp", "http-backup", "http-backup", "http-ws", "http-trailers", "tcp", "dns", "http-backup2")

# ------------------------------------------------------------------ strategies
_SUR = "\ud800"
_valid_str = st.sampled_from(["GET", "POST", "https", "http", "example.com", "/p?q=1", "HTTP/1.1", "HTTP/2.0", "x y", "",
                              "café", "bücher.example", "OK", "Not Found", "a" * 300])
_odd_str = st.one_of(st.integers(-5, 70000), st.none(), st.booleans(), st.just([]), st.just({}), st.just(1.5))
_bad_str = st.sampled_from([_SUR, "a" + _SUR + "b", "✓ done"])  # ✓ is invalid only for `reason` (latin-1)
_str_val = st.one_of(_valid_str, _valid_str, _valid_str, _odd_str, _odd_str, _bad_str)

_num_ok = st.one_of(st.integers(0, 70000), st.sampled_from(["80", " 443 ", "0", True, 12.7, "٣"]))
_num_bad = st.sampled_from(["x", "", "80a", None, [], {}, "1.5", "0x10", [80], "\ud800"])
_num_val = st.one_of(_num_ok, _num_ok, _num_ok, _num_ok, _num_bad)

_hname = st.sampled_from(["a", "Host", "content-type", "content-length", "x-b", "content-encoding", "transfer-encoding", "é"])
_hval = st.sampled_from(["1", "text/plain; charset=latin-1", "gzip", "identity", "v", "", "text/html; charset=utf-16", "é", "chunked"])
_hpair_ok = st.tuples(_hname, _hval).map(list)
_hpair_bad = st.sampled_from([["a"], ["a", "b", "c"], [1, 2], [], None, 5, "a", ["a", None], ["a", _SUR], [["a", "b"]],
                              {"a": "b"}, ["a", 2]])
_hlist_ok = st.lists(_hpair_ok, max_size=4)
_hlist_mixed = st.lists(st.one_of(_hpair_ok, _hpair_ok, _hpair_bad), min_size=1, max_size=4)
_hlist_bad = st.sampled_from([5, None, "notalist", {"a": "b"}, True, 1.5])
_hdr_val = st.one_of(_hlist_ok, _hlist_ok, _hlist_ok, _hlist_ok, _hlist_ok, _hlist_mixed, _hlist_bad)

_content_ok = st.sampled_from(["", "hello", "café ✓", "line1\nline2", None, "x" * 2000])
_content_val = st.one_of(_content_ok, _content_ok, _content_ok, _content_ok, st.sampled_from([5, [], {}, True, _SUR, ["a"]]))
_marked_val = st.sampled_from(["", ":red_circle:", ":grapes:", "x", True, False, None, 5, []])
_comment_val = st.sampled_from(["", "note", "café", _SUR, None, 7, []])
_junk = st.sampled_from([1, "x", None, [], {}, {"a": 1}])


def _entry(section):
    if section == "request":
        return st.one_of(
            st.tuples(st.just("request"), st.sampled_from(REQ_STR), _str_val),
            st.tuples(st.just("request"), st.sampled_from(REQ_STR), _str_val),
            st.tuples(st.just("request"), st.just("port"), _num_val),
            st.tuples(st.just("request"), st.just("port"), _num_val),
            st.tuples(st.just("request"), st.sampled_from(["headers", "trailers"]), _hdr_val),
            st.tuples(st.just("request"), st.just("content"), _content_val),
            st.tuples(st.just("request"), st.sampled_from(["foo", "Method", "", "code", "reason", "status_code"]), _junk),
        )
    if section == "response":
        return st.one_of(
            st.tuples(st.just("response"), st.sampled_from(["reason", "http_version"]), _str_val),
            st.tuples(st.just("response"), st.sampled_from(["reason", "http_version"]), _str_val),
            st.tuples(st.just("response"), st.just("code"), _num_val),
            st.tuples(st.just("response"), st.just("code"), _num_val),
            st.tuples(st.just("response"), st.sampled_from(["headers", "trailers"]), _hdr_val),
            st.tuples(st.just("response"), st.just("content"), _content_val),
            st.tuples(st.just("response"), st.sampled_from(["foo", "status_code", "", "method", "port"]), _junk),
        )
    return st.one_of(
        st.tuples(st.just("top"), st.just("marked"), _marked_val),
        st.tuples(st.just("top"), st.just("comment"), _comment_val),
        st.tuples(st.just("top"), st.just("marked"), _marked_val),
        st.tuples(st.just("top"), st.just("comment"), _comment_val),
        st.tuples(st.just("top"), st.just("comment"), _comment_val),
        st.tuples(st.just("top"), st.sampled_from(["foo", "id", "Request", "", "intercepted", "websocket"]), _junk),
        # a whole section that is not an object
        st.tuples(st.just("top"), st.sampled_from(["request", "response"]), st.sampled_from([5, None, [], "x", [["method", "X"]]])),
    )


_entries = st.lists(st.one_of(_entry("request"), _entry("request"), _entry("response"), _entry("top")), min_size=1, max_size=7)


# an entry whose value is "what this field was on the pristine flow" (users put fields back by hand); resolved at run time
_ORIG = {"$orig": 1}
_orig_entry = st.sampled_from(
    [["request", k, _ORIG] for k in ("method", "path", "port", "host", "scheme", "http_version", "headers", "content")] * 2
    + [["response", k, _ORIG] for k in ("code", "reason", "http_version", "headers", "content")] * 2
    + [["top", "comment", _ORIG], ["top", "marked", _ORIG]] * 6)
_RESTORE_ALL = ([["top", "comment", _ORIG], ["top", "marked", _ORIG]]
                + [["request", k, _ORIG] for k in ("method", "scheme", "host", "port", "path", "http_version", "headers", "content")]
                + [["response", k, _ORIG] for k in ("code", "reason", "http_version", "headers", "content")])
_INVALID_TAIL = st.sampled_from([["top", "foo", 1], ["request", "port", "x"], ["response", "code", "x"], ["request", "headers", [["a"]]],
                                 ["request", "Method", 1], ["top", "request", 5], ["response", "headers", 5], ["top", "", None]])


def _put_step(i):
    # i: 0-5 generic edit, 6-7 small edit of few plain fields, 8-9 edit made of restoring entries (+ maybe an invalid tail)
    form = st.sampled_from(["json"] * 24 + ["no-ctype", "malformed", "not-object"])
    if i <= 5:
        ent = st.lists(st.one_of(_entry("request"), _entry("response"), _entry("top"), _orig_entry), min_size=1, max_size=7)
    elif i <= 7:
        ent = st.lists(st.one_of(_entry("top"), st.tuples(st.just("request"), st.sampled_from(["method", "path"]), _valid_str),
                                 st.tuples(st.just("response"), st.just("code"), st.integers(100, 599))), min_size=1, max_size=3)
    elif i == 8:
        ent = st.tuples(st.lists(_orig_entry, min_size=1, max_size=4), st.lists(_INVALID_TAIL, max_size=1)).map(lambda t: t[0] + t[1])
    else:
        # "undo everything by hand": every editable field back to its pristine value (optionally without headers/body), then maybe
        # one invalid entry
        ent = st.tuples(st.booleans(), st.lists(_INVALID_TAIL, max_size=1)).map(
            lambda t: [e for e in _RESTORE_ALL if t[0] or e[1] not in ("headers", "content")] + t[1])
    return st.fixed_dictionaries({"op": st.just("put"), "entries": ent, "form": form})


_step = st.integers(0, 10).flatmap(lambda i: st.just({"op": "revert"}) if i == 10 else _put_step(i))


def strategy(ctx):
    return st.fixed_dictionaries({
        "kind": st.sampled_from(KINDS),
        "steps": st.lists(_step, min_size=1, max_size=4),
    })


# ------------------------------------------------------------------ flows
def make_flow(kind):
    from mitmproxy.test import tflow
    from mitmproxy import http
    if kind == "tcp":
        f = tflow.ttcpflow()
    elif kind == "dns":
        f = tflow.tdnsflow(resp=True)
    elif kind == "http-noresp":
        f = tflow.tflow()
    elif kind == "http-ws":
        f = tflow.tflow(ws=True, resp=True)
    else:
        f = tflow.tflow(resp=True)
    f.id = "a1"
    f.live = False
    if kind == "http-trailers":
        f.request.trailers = http.Headers([(b"t", b"1")])
        f.response.trailers = http.Headers([(b"u", b"2")])
    if kind == "http-backup":
        # edited earlier by the user: has a backup and differs from it
        f.backup()
        f.request.method = "EDITED"
        f.request.headers["x-edited"] = "1"
        f.comment = "earlier edit"
    if kind == "http-backup2":
        f.backup()
        f.response.status_code = 418
        f.marked = ":grapes:"
    return f


def _orig_value(pristine, sec, key):
    """JSON value of (sec, key) on the pristine flow, or None if it has no such field"""
    try:
        if sec == "top":
            return getattr(pristine, key)
        msg = getattr(pristine, sec, None)
        if msg is None or pristine.type != "http":
            return None
        if key in ("headers", "trailers"):
            h = getattr(msg, key)
            return [[k, v] for k, v in h.items(multi=True)] if h is not None else []
        if key == "content":
            return msg.get_text(strict=False)
        if key == "code":
            return msg.status_code
        return getattr(msg, key)
    except Exception:
        return None


def build_doc(entries, dns, pristine=None):
    doc = {}
    for sec, key, val in entries:
        if val == _ORIG:
            val = _orig_value(pristine, sec, key) if pristine is not None else None
        if sec == "top":
            if dns and key in ("request", "response"):
                continue
            doc[key] = val
        else:
            if dns:
                continue
            cur = doc.get(sec)
            if not isinstance(cur, dict):
                if sec in doc:
                    # section already present as a non-object: keep document order, replace by object
                    pass
                doc[sec] = cur = {}
            cur[key] = val
    return doc


# ------------------------------------------------------------------ reference model
class Invalid(Exception):
    pass


def _set_headers(msg, attr, v, strict=True):
    from mitmproxy import http
    if attr == "headers":
        h = msg.headers
        h.clear()
    else:
        if msg.trailers is not None:
            msg.trailers.clear()
        else:
            msg.trailers = http.Headers()
        h = msg.trailers
    if strict and not isinstance(v, list):
        raise Invalid("header list is not a list")
    for item in v:
        if strict and not (isinstance(item, list) and len(item) == 2 and all(isinstance(x, str) for x in item)):
            raise Invalid("header item is not a [name, value] pair of strings")
        h.add(*item)


def model_apply(scratch, doc, before_state, strict=True):
    """apply doc to scratch in document order; returns (valid, changed_before_failure).
    strict=True validates value shapes the way the statement names them (header items are [str, str] pairs, content is
    text or null); strict=False only fails where the attribute setters themselves fail."""
    is_http = scratch.type == "http"

    def step():
        for a, b in doc.items():
            if a == "request" and is_http:
                if not isinstance(b, dict):
                    raise Invalid("section not an object")
                r = scratch.request
                for k, v in b.items():
                    if k in REQ_STR:
                        setattr(r, k, str(v))
                    elif k == "port":
                        r.port = int(v)
                    elif k in ("headers", "trailers"):
                        _set_headers(r, k, v, strict)
                    elif k == "content":
                        if strict and v is not None and not isinstance(v, str):
                            raise Invalid("content not text")
                        r.text = v
                    else:
                        raise Invalid("unknown request field")
                    yield
            elif a == "response" and is_http:
                if not isinstance(b, dict):
                    raise Invalid("section not an object")
                r = scratch.response
                if r is None:
                    if b:
                        raise Invalid("no response to edit")
                    continue
                for k, v in b.items():
                    if k == "reason":
                        r.reason = str(v)
                    elif k == "http_version":
                        r.http_version = str(v)
                    elif k == "code":
                        r.status_code = int(v)
                    elif k in ("headers", "trailers"):
                        _set_headers(r, k, v, strict)
                    elif k == "content":
                        if strict and v is not None and not isinstance(v, str):
                            raise Invalid("content not text")
                        r.text = v
                    else:
                        raise Invalid("unknown response field")
                    yield
            elif a == "marked":
                scratch.marked = b
                yield
            elif a == "comment":
                scratch.comment = b
                yield
            else:
                raise Invalid("unknown field")

    changed = False
    try:
        for _ in step():
            pass
    except Exception:
        st_now = None
        try:
            st_now = _state(scratch)
        except Exception:
            changed = True
        if st_now is not None:
            changed = st_now != before_state
        return False, changed
    return True, True


def _state(f, backup=True):
    s = f.get_state()
    if not backup:
        s.pop("backup", None)
    return s


# ------------------------------------------------------------------ oracle
_XSRF = "0123456789abcdef0123456789abcdef"


def check_case(case, ctx):
    env = webharness.env()
    kind = case["kind"]
    steps = case.get("steps")
    if steps is None:   # single-edit cases recorded before histories were introduced (witnesses / regressions)
        steps = [{"op": "put", "entries": case["entries"], "form": case["form"]}]
    f = make_flow(kind)
    pristine = make_flow("http" if kind.startswith("http-backup") else kind)
    env.view.clear()
    env.view.add([f])
    hdr = [("Cookie", "%s=%s; %s=%s" % (env.auth_cookie_name, env.valid_auth_cookie(), env.xsrf_cookie_name, _XSRF)), ("X-XSRFToken", _XSRF)]
    hist = {"valid_edits": 0}
    try:
        for i, step in enumerate(steps):
            if step["op"] == "revert":
                r = env.request("POST", "/flows/a1/revert", hdr, b"")
                if r.status == 403:
                    raise HarnessError("harness credentials refused: %r" % (r,))
                ctx.cls("step:revert")
                continue
            if not _one_edit(env, f, pristine, kind, step["entries"], step["form"], ctx, i, hist, len(steps)):
                break
    finally:
        env.view.clear()


def _one_edit(env, f, pristine, kind, entries, form, ctx, idx, hist, nsteps):
    """one PUT on the flow as it is now; returns False if the history cannot be continued"""
    doc = build_doc(entries, kind == "dns", pristine)
    try:
        body = json.dumps(doc).encode()
    except (TypeError, ValueError) as e:
        raise HarnessError("case not JSON-able: %r" % (e,))
    ctype = "application/json"
    form_invalid = False
    if form == "no-ctype":
        ctype, form_invalid = "text/plain", True
    elif form == "malformed":
        body, form_invalid = body[:-1] + b",", True
    elif form == "not-object":
        body, form_invalid = json.dumps([doc]).encode(), True

    try:
        before = _state(f)
        scratch = type(f).from_state(_state(f))
    except Exception:
        # an earlier, leniently accepted edit (e.g. a null header value) left a flow that cannot be copied: stop this history
        ctx.cls("history-stopped:flow-state-not-copyable")
        return False
    lenient_state = None
    if form_invalid:
        valid, changed_before_failure = False, False
    else:
        valid, changed_before_failure = model_apply(scratch, doc, before)
        if not valid:
            # shapes the statement calls malformed but the setters happen to swallow (e.g. a null header value):
            # validity is unspecified, atomicity is not -> either outcome, nothing in between
            scratch2 = type(f).from_state(_state(f))
            ok2, _ = model_apply(scratch2, doc, before, strict=False)
            if ok2:
                try:
                    lenient_state = _state(scratch2, backup=False)
                except Exception:
                    lenient_state = None

    headers = [("Cookie", "%s=%s; %s=%s" % (env.auth_cookie_name, env.valid_auth_cookie(), env.xsrf_cookie_name, _XSRF)),
               ("X-XSRFToken", _XSRF), ("Content-Type", ctype)]
    resp = env.request("PUT", "/flows/a1", headers, body)
    if resp.status == 403:
        raise HarnessError("harness credentials refused: %r" % (resp,))
    got = env.view.get_by_id("a1")
    if got is not f:
        ctx.fail("flow-replaced:%s" % kind, "flow object in the view changed: %r" % (got,))
        return False
    try:
        after = _state(f)
    except Exception as e:
        ctx.fail("state-unreadable-after-edit:%s" % type(e).__name__, "status=%d doc=%s" % (resp.status, body[:300]))
        return False
    had_backup = before.get("backup") is not None
    fk = "backup" if had_backup else "nobackup"
    later = hist["valid_edits"] > 0      # the flow was already edited through this API earlier in the history
    desc = "kind=%s step=%d/%d (earlier valid edits: %d) status=%d doc=%s" % (kind, idx + 1, nsteps, hist["valid_edits"], resp.status, body[:400].decode("latin-1"))

    if valid:
        ctx.cls("valid:%s" % kind)
        if had_backup:
            ctx.nt((kind, body), "valid:pre-existing-backup")
        exp = _state(scratch, backup=False)
        act = dict(after)
        act.pop("backup", None)
        if resp.status >= 400:
            ctx.fail("valid-edit-refused:%d" % resp.status, desc)
        elif act != exp:
            diff = _diff(exp, act)
            ctx.fail("valid-edit-not-applied-completely:%s" % diff[0], desc + " differs at %s" % (diff,))
        elif after != before:
            hist["valid_edits"] += 1
        return True

    # invalid edit: the flow must be exactly as it was
    if changed_before_failure or had_backup:
        ctx.nt((kind, form, body, idx, hist["valid_edits"]), "invalid:%s:%s%s" % ("after-change" if changed_before_failure else "first", fk, ":later-in-history" if later else ""))
    else:
        ctx.cls("invalid:first:nobackup")
    if had_backup and not form_invalid and not _eq_backup({k: v for k, v in before.items() if k != "backup"}, before["backup"]) \
            and _valid_prefix_restores_backup(f, doc, before):
        ctx.nt(("restore", kind, body, idx), "invalid:valid-prefix-puts-flow-back-to-its-backup")
    if after == before:
        if resp.status < 400:
            ctx.cls("invalid-but-2xx-unchanged")
        return True
    if lenient_state is not None:
        act = dict(after)
        act.pop("backup", None)
        if act == lenient_state:
            ctx.cls("leniently-valid-applied-completely:%d" % resp.status)
            return True
    b2, a2 = dict(before), dict(after)
    bb, ab = b2.pop("backup", None), a2.pop("backup", None)
    if resp.status == 500:
        # one root cause: the handler only reverts on APIError; any other exception leaves the edit half applied
        # (or, at the very least, leaves a fresh backup behind so that the flow now reports itself as modified)
        ctx.fail("failed-edit-not-reverted:unhandled-exception", desc + " differs at %s" % (_diff(before, after),))
    elif a2 == b2:
        ctx.fail("backup-changed-by-failed-edit:%d:%s" % (resp.status, fk), desc)
    elif had_backup and bb is not None and _eq_backup(a2, bb):
        ctx.fail("failed-edit-reverts-earlier-edits:%d" % resp.status, desc + " differs at %s" % (_diff(b2, a2),))
    else:
        ctx.fail("failed-edit-changed-flow:%d:%s" % (resp.status, fk), desc + " differs at %s" % (_diff(b2, a2),))
    return True


def _valid_prefix_restores_backup(f, doc, before):
    """evidence only: did the part of the document that applies before the invalid entry make the flow equal to its backup?"""
    bk = before.get("backup")
    if not bk:
        return False
    try:
        sc = type(f).from_state(copy.deepcopy(before))
        model_apply(sc, doc, before)
        st_ = _state(sc, backup=False)
        b = dict(bk)
        b.pop("backup", None)
        return st_ == b
    except Exception:
        return False


def _eq_backup(state_wo_backup, backup):
    b = dict(backup)
    b.pop("backup", None)
    return b == state_wo_backup


def _diff(a, b, path=""):
    if isinstance(a, dict) and isinstance(b, dict):
        for k in sorted(set(a) | set(b), key=str):
            if a.get(k, "<missing>") != b.get(k, "<missing>"):
                return _diff(a.get(k, "<missing>"), b.get(k, "<missing>"), path + "/" + str(k))
    return (path.lstrip("/").split("/")[0] + ("/" + path.lstrip("/").split("/")[1] if path.count("/") > 1 else ""), repr(a)[:80], repr(b)[:80])


def run(ctx):
    from runner import hyp
    try:
        hyp(ctx, strategy(ctx), check_case, ctx.n(QUICK_N, THOROUGH_N))
    finally:
        webharness.close_env()
