"""C36 — flow files round-trip every flow type; the reader is total.

Part A (round trip).  A case is a list of 1..5 flow descriptors of mixed types (lib/flowgen.py: HTTP with/without
response, WebSocket, TCP, UDP, DNS; every serialised field drawn from its type range incl. certificates, via, IPv6
4-tuples, errors, markers, comments, nested metadata, replay state, backups with edits after the backup).  The flows
are built with public constructors, written with FlowWriter into one file and read back with FlowReader.
Oracles (all must hold, per flow, order kept):
  * number of flows equal;
  * listify(get_state()) of loaded == of original (tnetstring has no tuple type: tuples compare as lists);
  * observe(loaded) == observe(original): every attribute read back through plain attribute access, not get_state —
    so a field dropped symmetrically from get_state/set_state is still noticed;
  * for flows without post-backup edits: observe(loaded) == expected(descriptor) (predicted from the descriptor alone);
  * for flows carrying a backup: revert() on the loaded flow yields the same state as revert() on the original.
(Byte-identical re-saving is NOT asserted: tnetstring writes dict items in reverse order, so nested dicts such as
metadata or a backup come back in reversed key order, which is the same state.)
Part B (reader totality).  Inputs: arbitrary byte strings biased to tnetstring tokens, structurally mutated valid
states (delete / retype / add keys at any depth, wrong version, wrong type, non-dict top level, deep nesting) and
byte-level mutations of valid files (bit flips, truncation, insertions, deletions), also behind a HAR-looking '{'.
Oracle: iterating FlowReader(BytesIO(data)).stream() yields Flow objects and ends, or raises FlowReadException.
"""
import io
import json
import os
import re
import tempfile

from hypothesis import strategies as st

import flowgen as fg
from runner import repo_frame

# imported here (not lazily) so that the forked shard workers inherit the loaded modules
from mitmproxy import exceptions
from mitmproxy import flow as mflow
from mitmproxy.io import FlowReader, FlowWriter, tnetstring

PID = "C36"
LEVEL = "exploration"
TECHNIQUE = "Hypothesis-generated flow descriptors -> write/read round trip vs. attribute-level observation; structural + byte mutation fuzzing of the reader"
RULE = ("A: files of 1-5 generated flows of mixed types; non-trivial = a flow with >=1 optional structure populated "
        "(websocket, trailers, certs, backup, error, metadata, via ...), distinct by (kind, populated set, state digest). "
        "B: arbitrary/mutated file contents; every case counts as non-trivial (distinct by content digest), classes = "
        "mutation kind x outcome")
ASSUMPTIONS = ["flows are built through public constructors/attributes (flowgen.build), never through from_state",
               "timestamps are > 0 and not NaN; metadata restricted to None/bool/int/float/str/bytes/list/dict[str,...]",
               "reader fed from io.BytesIO; inputs with a >= 10**11 length prefix are additionally read through a real file"]
LEVEL_TEXT = ("exploration: randomised search over flow states of all five kinds and over mutated file contents; "
              "no exhaustiveness claim")
LEVEL_NOTE = "trusts flowgen.build/observe (harness) and Python's float repr round trip"
QUICK_N, THOROUGH_N = 10_000, 1_200_000

_IGNORE = ("live",)


def _cmp_obs(o):
    o = dict(o)
    for k in _IGNORE:
        o.pop(k, None)
    return o


def _first_diff(a, b, path=""):
    if type(a) is not type(b) and not (isinstance(a, (int, float)) and isinstance(b, (int, float))):
        return "%s: %r != %r" % (path, a, b)
    if isinstance(a, dict):
        for k in sorted(set(a) | set(b), key=repr):
            if k not in a or k not in b:
                return "%s.%s: only on one side (%r / %r)" % (path, k, a.get(k, "<absent>"), b.get(k, "<absent>"))
            d = _first_diff(a[k], b[k], path + "." + str(k))
            if d:
                return d
        return None
    if isinstance(a, list):
        if len(a) != len(b):
            return "%s: len %d != %d" % (path, len(a), len(b))
        for i, (x, y) in enumerate(zip(a, b)):
            d = _first_diff(x, y, "%s[%d]" % (path, i))
            if d:
                return d
        return None
    return None if a == b else "%s: %r != %r" % (path, a, b)


def _field_of(diff):
    # bucket by the first two path components, e.g. ".client.sni"
    p = diff.split(":", 1)[0]
    parts = [x.split("[")[0] for x in p.split(".") if x]
    return ".".join(parts[:2]) or "?"


# ------------------------------------------------------------------------------------------------ part A
def check_roundtrip(descs, ctx):
    flows = [fg.build(d) for d in descs]
    buf = io.BytesIO()
    w = FlowWriter(buf)
    try:
        for f in flows:
            w.add(f)
    except Exception as e:
        ctx.crash(e, "write-crash")
        return
    data = buf.getvalue()
    try:
        loaded = list(FlowReader(io.BytesIO(data)).stream())
    except exceptions.FlowReadException as e:
        ctx.fail("valid-file-rejected:" + "+".join(sorted({fg.kind_of(d) for d in descs})), repr(e) + " cause=%r" % (e.__cause__,))
        return
    except Exception as e:
        ctx.crash(e, "read-crash")
        return
    if len(loaded) != len(flows):
        ctx.fail("count", "%d written, %d read" % (len(flows), len(loaded)))
        return
    for d, f, g in zip(descs, flows, loaded):
        kind = fg.kind_of(d)
        pop = fg.populated(d)
        if not isinstance(g, mflow.Flow) or type(g) is not type(f):
            ctx.fail("type:" + kind, "%r loaded as %r" % (type(f), type(g)))
            continue
        s1, s2 = fg.listify(f.get_state()), fg.listify(g.get_state())
        if pop:
            ctx.nt((kind, tuple(pop), json.dumps(_digestable(s1), sort_keys=True)), kind)
            for p in pop:
                ctx.cls("has:" + p)
        else:
            ctx.cls("plain:" + kind)
        diff = _first_diff(s1, s2, "")
        if diff:
            ctx.fail("state-differs:%s:%s" % (kind, _field_of(diff)), diff)
        o1, o2 = _cmp_obs(fg.observe(f)), _cmp_obs(fg.observe(g))
        diff = _first_diff(o1, o2, "")
        if diff:
            ctx.fail("attr-differs:%s:%s" % (kind, _field_of(diff)), diff)
        if not d.get("backup"):
            e = _cmp_obs(fg.expected(d))
            o = _cmp_obs(fg.observe(g, backup=False))
            diff = _first_diff(e, o, "")
            if diff:
                ctx.fail("attr-vs-descriptor:%s:%s" % (kind, _field_of(diff)), diff)
        if d.get("backup") is not None:
            # a backup that went through the file must still work: reverting the loaded flow gives what reverting
            # the original gives
            try:
                f.revert()
                g.revert()
            except Exception as e:
                ctx.crash(e, "revert-after-load-crash")
                continue
            diff = _first_diff(fg.listify(f.get_state()), fg.listify(g.get_state()), "") or \
                _first_diff(_cmp_obs(fg.observe(f)), _cmp_obs(fg.observe(g)), "")
            if diff:
                ctx.fail("revert-after-load-differs:%s:%s" % (kind, _field_of(diff)), diff)


def _digestable(x):
    if isinstance(x, bytes):
        return x.decode("latin-1")
    if isinstance(x, list):
        return [_digestable(i) for i in x]
    if isinstance(x, dict):
        return {str(k): _digestable(v) for k, v in x.items()}
    if isinstance(x, float):
        return repr(x)
    return x


# ------------------------------------------------------------------------------------------------ part B
def _paths(o, out, depth=0):
    if isinstance(o, dict):
        for k in o:
            out.append((o, k))
            _paths(o[k], out, depth + 1)
    elif isinstance(o, list):
        for i in range(len(o)):
            out.append((o, i))
            _paths(o[i], out, depth + 1)


class _Raw:
    """pre-encoded tnetstring payload placed as a value in a top-level state dict"""

    def __init__(self, data):
        self.data = data


def _deep(depth, as_list):
    out = b"1:0#"
    for _ in range(depth):
        if as_list:
            out = b"%d:%s]" % (len(out), out)
        else:
            out = b"%d:1:a;%s}" % (len(out) + 4, out)
    return out


def mutate_states(states, ops):
    """apply structural mutation ops to a list of (listified) state dicts; returns list of top-level values.
    "nest" ops are applied last (they insert a pre-encoded, very deeply nested value)."""
    tops = list(states)
    for op in [o for o in ops if o[0] != "nest"] + [o for o in ops if o[0] == "nest"]:
        k = op[0]
        paths = []
        if k in ("del", "set", "add"):
            for s in tops:
                _paths(s, paths)
        if k in ("del", "set", "add") and paths:
            cont, key = paths[op[1] % len(paths)]
            if k == "del":
                del cont[key]
            elif k == "set":
                cont[key] = op[2]
            else:
                tgt = cont[key]
                if isinstance(tgt, dict):
                    tgt[op[2]] = op[3]
                elif isinstance(tgt, list):
                    tgt.append(op[3])
        elif k == "top" and tops:
            i = op[1] % len(tops)
            if isinstance(tops[i], dict):
                if op[2] == "del":
                    tops[i].pop(op[3], None)
                else:
                    tops[i][op[3]] = op[4]
        elif k == "wrap" and tops:
            i = op[1] % len(tops)
            tops[i] = op[2] if op[2] is not None else [tops[i]]
        elif k == "nest" and tops:
            i = op[1] % len(tops)
            if isinstance(tops[i], dict):
                tops[i]["metadata"] = _Raw(_deep(op[2], op[3]))
            else:
                tops[i] = _Raw(_deep(op[2], op[3]))
    return tops


def _enc_top(t):
    if isinstance(t, _Raw):
        return t.data
    if isinstance(t, dict) and any(isinstance(v, _Raw) for v in t.values()):
        body = b"".join(tnetstring.dumps(k) + (v.data if isinstance(v, _Raw) else tnetstring.dumps(v)) for k, v in t.items())
        return b"%d:%s}" % (len(body), body)
    return tnetstring.dumps(t)


def mutate_bytes(data, ops):
    data = bytearray(data)
    for op in ops:
        k = op[0]
        n = len(data)
        if k == "flip" and n:
            data[op[1] % n] ^= 1 << (op[2] % 8)
        elif k == "trunc" and n:
            del data[op[1] % (n + 1):]
        elif k == "insert":
            p = op[1] % (n + 1)
            data[p:p] = op[2]
        elif k == "delete" and n:
            p = op[1] % n
            del data[p:p + 1 + op[2] % 9]
        elif k == "setbyte" and n:
            data[op[1] % n] = op[2]
        elif k == "prefix":
            data[0:0] = op[1]
    return bytes(data)


_HUGE = re.compile(rb"(?<![0-9])[1-9][0-9]{11}:")      # a length prefix >= 10**11: allocation fails at once, nothing is mapped
_RISKY = re.compile(rb"(?<![0-9])0*[1-9][0-9]{7,10}:")             # 10 MB .. 100 GB prefixes are never fed to a real file (would allocate)
_TMP = "/dev/shm" if os.path.isdir("/dev/shm") and os.access("/dev/shm", os.W_OK) else "/var/tmp"


def check_reader(data, ctx, label):
    n = 0
    outcome = "ok"
    try:
        for f in FlowReader(io.BytesIO(data)).stream():
            n += 1
            if not isinstance(f, mflow.Flow):
                ctx.fail("reader-yields-nonflow:" + label, repr(type(f)))
    except exceptions.FlowReadException:
        outcome = "flowreadexc"
    except Exception as e:
        outcome = "other-exc"
        ctx.fail("reader-not-total:%s@%s" % (type(e).__name__, repo_frame(e)), "%s: %r on %d bytes %r..." % (label, e, len(data), data[:80]))
    ctx.nt(data, "B:%s:%s%s" % (label, outcome, ":flows" if n else ""))
    if _HUGE.search(data) and not _RISKY.search(data):
        # the same bytes through a real (buffered) file object, as ReadFile / read_flows_from_paths use it:
        # BufferedReader.read(n) allocates n bytes up front, BytesIO.read(n) does not
        fd, path = tempfile.mkstemp(prefix="c36-", dir=_TMP)
        try:
            with os.fdopen(fd, "wb") as fh:
                fh.write(data)
            with open(path, "rb") as fh:
                try:
                    for f in FlowReader(fh).stream():
                        pass
                    ctx.cls("B:realfile:ok")
                except exceptions.FlowReadException:
                    ctx.cls("B:realfile:flowreadexc")
                except Exception as e:
                    ctx.cls("B:realfile:other-exc")
                    ctx.fail("reader-not-total:%s@%s:real-file" % (type(e).__name__, repo_frame(e)),
                             "%s via open(): %r on %d bytes %r..." % (label, e, len(data), data[:80]))
        finally:
            os.unlink(path)


_WRONG = st.one_of(st.none(), st.booleans(), st.integers(-2, 30), st.sampled_from([2 ** 64, -2 ** 70, 1.5, float("inf")]),
                   st.sampled_from(["", "http", "tcp", "dns", "udp", "x", "regular", "QUIC", "TLSv1.3"]),
                   st.sampled_from([b"", b"x", b"HTTP/1.1", b"-----BEGIN CERTIFICATE-----\nAAAA\n-----END CERTIFICATE-----\n"]),
                   st.sampled_from([[], [[]], [1], ["a", 1], [[b"a", b"b"]], [[b"a"]], [["h", 1, 2]], {}, {"a": 1}, [None], [0, 0, 0]]))
_TOPKEYS = ["version", "type", "id", "error", "client_conn", "server_conn", "intercepted", "is_replay", "marked",
            "metadata", "comment", "timestamp_created", "backup", "request", "response", "websocket", "messages", "mode"]
_VERSIONS = st.one_of(st.integers(-1, 25), st.sampled_from([None, "21", b"21", 21.0, [0, 11], [0, 18], [1, 0], [3, 0, 0], [], [21], {}, True,
                                                            2 ** 80, [None], ["a"], [0]]))
_struct_op = st.one_of(
    st.tuples(st.just("del"), st.integers(0, 10 ** 6)),
    st.tuples(st.just("set"), st.integers(0, 10 ** 6), _WRONG),
    st.tuples(st.just("add"), st.integers(0, 10 ** 6), st.sampled_from(["x", "version", "type", ""]), _WRONG),
    st.tuples(st.just("top"), st.integers(0, 4), st.just("del"), st.sampled_from(_TOPKEYS)),
    st.tuples(st.just("top"), st.integers(0, 4), st.just("set"), st.sampled_from(_TOPKEYS), _WRONG),
    st.tuples(st.just("top"), st.integers(0, 4), st.just("set"), st.just("version"), _VERSIONS),
    st.tuples(st.just("top"), st.integers(0, 4), st.just("set"), st.just("type"),
              st.sampled_from(["http", "tcp", "udp", "dns", "websocket", "dummy", "", b"http", None, 1])),
    st.tuples(st.just("wrap"), st.integers(0, 4), st.one_of(st.none(), _WRONG)),
    st.tuples(st.just("nest"), st.integers(0, 4), st.sampled_from([10, 200, 600, 1500, 4000]), st.booleans()),
).map(list)
_byte_op = st.one_of(
    st.tuples(st.just("flip"), st.integers(0, 10 ** 6), st.integers(0, 7)),
    st.tuples(st.just("trunc"), st.integers(0, 10 ** 6)),
    st.tuples(st.just("insert"), st.integers(0, 10 ** 6), st.one_of(st.binary(max_size=4), st.sampled_from([b"0:~", b"1:", b"}", b"]", b"9"]))),
    st.tuples(st.just("delete"), st.integers(0, 10 ** 6), st.integers(0, 8)),
    st.tuples(st.just("setbyte"), st.integers(0, 10 ** 6), st.sampled_from(list(b",;#^!~]}:0123456789{"))),
    st.tuples(st.just("prefix"), st.sampled_from([b"{", b"\xef\xbb\xbf{", b"\xef\xbb\xbf", b" ", b"0:~", b"2:{}", b"3:1:a"])),
).map(list)
_tokens = st.sampled_from([b"0:~", b"4:true!", b"5:false!", b"1:1#", b"3:1.5^", b"1:a,", b"1:a;", b"0:]", b"0:}", b":", b"0", b"9",
                           b"999999999999:", b"1000000000000:", b"00:", b"-1:", b"7:version;", b"2:21#", b"4:type;", b"4:http;",
                           b"3:tcp;", b"3:dns;", b"{", b"}", b"]", b",", b";", b"#", b"^", b"!", b"~", b"\xff", b"1:\xff;",
                           b"4:\xf0\x9f\x8d\x87;", b"3:nan^", b"1:x#", b"2:id;", b"{\"log\":{\"entries\":[]}}", b"{\"log\":{\"entries\":[{}]}}",
                           b"\xef\xbb\xbf", b"22:7:version;2:21#4:type;", b"5000:" + b"9" * 5000 + b"#"])
_raw = st.lists(st.one_of(_tokens, st.binary(max_size=6)), max_size=12).map(b"".join)


def _wrapped(inner):
    """tnetstring-frame some arbitrary payload as a dict/list so that the inner parser is reached"""
    return st.tuples(inner, st.sampled_from([b"}", b"]", b",", b";", b"#"])).map(lambda t: b"%d:%s%s" % (len(t[0]), t[0], t[1]))


def strategy(ctx):
    pool = fg.Pool(ctx.shard_seed)
    fl = fg.flows(pool=pool)
    small = fg.flows(small=True, pool=pool)
    a = st.fixed_dictionaries({"mode": st.just("roundtrip"), "flows": st.lists(fl, min_size=1, max_size=5)})
    a1 = st.fixed_dictionaries({"mode": st.just("roundtrip"), "flows": st.lists(fl, min_size=1, max_size=1)})
    b1 = st.fixed_dictionaries({"mode": st.just("struct"), "flows": st.lists(small, min_size=1, max_size=2),
                                "ops": st.lists(_struct_op, min_size=1, max_size=3)})
    b2 = st.fixed_dictionaries({"mode": st.just("bytemut"), "flows": st.lists(small, min_size=1, max_size=2),
                                "ops": st.lists(_byte_op, min_size=1, max_size=3)})
    b3 = st.fixed_dictionaries({"mode": st.just("raw"), "data": st.one_of(_raw, _wrapped(_raw), st.binary(max_size=40))})
    return st.one_of(a, a1, b1, b1, b2, b3, b3)


def check_case(case, ctx):
    mode = case["mode"]
    if mode == "roundtrip":
        check_roundtrip(case["flows"], ctx)
        return
    if mode == "raw":
        check_reader(case["data"], ctx, "raw")
        return
    flows = [fg.build(d) for d in case["flows"]]
    states = [fg.listify(f.get_state()) for f in flows]
    if mode == "struct":
        tops = mutate_states(states, case["ops"])
        data = b"".join(_enc_top(t) for t in tops)
        check_reader(data, ctx, "struct:" + "+".join(sorted({o[0] if o[0] != "top" else "top-" + o[3] for o in case["ops"]}))[:60])
    else:
        data = mutate_bytes(b"".join(tnetstring.dumps(s) for s in states), case["ops"])
        check_reader(data, ctx, "bytes:" + "+".join(sorted({o[0] for o in case["ops"]})))
