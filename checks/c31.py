"""C31 -- Content-Encoding round-trips and the codec cache is transparent.

Case = a small pool of bodies, 3 messages (requests/responses) and a history of <= 16 operations on them
(set/del Content-Encoding and Transfer-Encoding headers, assign content, read content, assign a raw body produced by an
*independent* encoder -- gzip/zlib/raw deflate/brotli/zstd at various levels, optionally truncated, with trailing
garbage, bit-flipped, empty or not compressed at all --, Message.decode(), Message.encode(c), decode+encode, and direct
encoding.encode/encoding.decode calls).  The history is interpreted against the real objects with the process-wide
codec cache left alone.

Oracles
  absolute (statement clauses, evaluated after each step):
    * after `m.content = c` under a supported coding: m.content == c, the reference decoder for the declared coding
      (gzip.decompress / zlib-or-raw-deflate / brotli / zstd called directly) maps m.raw_content to c, and without
      Transfer-Encoding Content-Length == len(raw_content);
    * Message.decode() keeps the content; decode()+encode(c) keeps the content; encode(c) stores a body the reference
      decoder for c maps back to what was encoded;
    * encoding.encode(b, c) is decodable to b by the reference decoder, encoding.decode(reference_encode(b), c) == b.
  metamorphic (cache transparency): every step is also executed on a clone of the pre-step message with an empty
    codec cache (reset before every call into mitmproxy); the *semantic* observation (returned content / exception
    type / Content-Encoding header / what the reference decoder makes of the raw body) must be identical.  Compressed
    bytes themselves are not compared.
"""
import gzip
import zlib

import brotli

import runner
from dmgen import pick

try:  # same import dance as mitmproxy, but the reference calls the library directly
    from compression import zstd  # type: ignore
except ImportError:  # pragma: no cover
    from backports import zstd

PID = "C31"
LEVEL = "exploration"
TECHNIQUE = "seeded-PRNG op-sequence generation; reference decoders + fresh-cache twin execution (metamorphic)"
RULE = ("histories of <=16 ops over 3 messages and a pool of <=4 bodies (b'' always present) x 15 coding spellings; "
        "non-trivial = at least one step runs while the process-wide codec cache holds an entry for the same coding "
        "and the same body/raw value (hit or poisoning opportunity); distinct by (op kind, coding, hit) sequence and "
        "body classes")
ASSUMPTIONS = ["gzip/zlib/brotli/zstd library decoders called directly are the reference ('independent decoders')",
               "a deflate body may be zlib-wrapped or raw (both occur in the wild); the reference accepts either",
               "compressed bytes are not compared between cache states, only what they decode to"]
LEVEL_TEXT = ("randomised histories against reference decoders and a fresh-cache twin; finds history dependence only "
              "for cache states reachable within 16 steps over <=4 bodies")
LEVEL_NOTE = "trusts the compression libraries' own decoders as reference"
QUICK_N, THOROUGH_N = 120_000, 4_000_000

SUPPORTED = ("gzip", "deflate", "br", "zstd")
CODINGS = ["gzip", "deflate", "br", "zstd", "identity", "GZip", "BR", "Zstd", "DEFLATE", "Identity", "none",
           "x-unknown", "gzip, br", "utf8", "hex"]
ENCODERS = ["gzip", "zlib", "rawdeflate", "br", "zstd"]
MUTS = ["ok", "ok", "ok", "trunc", "garbage", "flip", "empty", "plain", "double"]


# ------------------------------------------------------------------ reference side
def ref_encode(kind, body, param):
    if kind == "gzip":
        return gzip.compress(body, compresslevel=param % 10, mtime=param)
    if kind == "zlib":
        return zlib.compress(body, param % 10)
    if kind == "rawdeflate":
        c = zlib.compressobj(param % 10, zlib.DEFLATED, -15)
        return c.compress(body) + c.flush()
    if kind == "br":
        return brotli.compress(body, quality=param % 12)
    if kind == "zstd":
        return zstd.compress(body, level=1 + param % 9)
    raise AssertionError(kind)


def foreign(kind, body, param, mut):
    data = ref_encode(kind, body, param)
    if mut == "trunc":
        return data[: max(0, len(data) - 1 - param % 6)]
    if mut == "garbage":
        return data + b"garbage"[: 1 + param % 7]
    if mut == "flip":
        i = param % len(data)
        return data[:i] + bytes([data[i] ^ (1 << (param % 8))]) + data[i + 1:]
    if mut == "empty":
        return b""
    if mut == "plain":
        return body
    if mut == "double":
        return data + data
    return data


def refdec(ce, raw):
    """what an independent decoder makes of `raw` under header value `ce`: ("ok", bytes) | ("err",) | ("raw", bytes)"""
    if raw is None:
        return ("none",)
    c = (ce or "identity").lower()
    try:
        if c == "gzip":
            return ("ok", gzip.decompress(raw))
        if c == "deflate":
            try:
                return ("ok", zlib.decompress(raw))
            except zlib.error:
                d = zlib.decompressobj(-15)
                out = d.decompress(raw) + d.flush()
                if not d.eof or d.unused_data:
                    return ("err",)
                return ("ok", out)
        if c == "br":
            return ("ok", brotli.decompress(raw))
        if c == "zstd":
            return ("ok", zstd.decompress(raw))
    except Exception:
        return ("err",)
    return ("raw", raw)


# ------------------------------------------------------------------ generator
_FIXED_BODIES = [b"a", b"hello", b"hello world " * 4, b"\x00" * 32, b"<html>\xc3\xa9</html>", b";", b"\x1f\x8b"]
_SUP = ["gzip", "deflate", "br", "zstd", "BR", "GZip"]
_CODW = CODINGS + _SUP * 3            # coding choice weighted towards the supported ones
_KINDS = ["nop", "hdr", "hdr", "hdrsup", "te", "set", "set", "set", "get", "get", "raw", "raw", "rawm", "rawm", "decode",
          "encode", "recode", "enc", "enc", "dec", "dec", "setnone"]


def decode_ops(prog):
    """4 program bytes -> one op (compact program encoding; hand-written replays may give 'ops' explicitly)"""
    ops = []
    last_sup, last_bi, last_mi = "br", 0, 0
    for i in range(0, len(prog) - 3, 4):
        a, b, c, d = prog[i:i + 4]
        k = _KINDS[a % len(_KINDS)]
        mi, bi = b % 3, (b // 3) % 4
        if b & 64:
            mi = last_mi
        coding = _CODW[c % len(_CODW)]
        sup = _SUP[c % len(_SUP)]
        # half of the ops reuse the previous op's coding / body so that the single-entry cache is actually hit
        if c >= 128:
            coding = sup = last_sup
        if b >= 128:
            bi = last_bi
        last_sup, last_bi, last_mi = sup, bi, mi
        param = (d // 5) % 4 if d < 200 else d
        fr = [ENCODERS[d % 5], param, MUTS[(c // 6) % len(MUTS)]]
        if k == "nop":      # what the shrinker zeroes an op to
            continue
        if k == "hdr":
            ops.append(["hdr", mi, None if c % 7 == 0 else coding])
        elif k == "hdrsup":
            ops.append(["hdr", mi, sup])
        elif k == "te":
            ops.append(["te", mi, bool(c & 1)])
        elif k == "set":
            ops.append(["set", mi, bi, sup if d & 1 else None])
        elif k == "get":
            ops.append(["get", mi, bool(c & 1)])
        elif k == "raw":
            ops.append(["raw", mi, bi, fr])
        elif k == "rawm":
            ops.append(["rawm", mi, bi, param % 4, sup if d & 1 else None])
        elif k == "decode":
            ops.append(["decode", mi, bool(c & 1)])
        elif k == "encode":
            ops.append(["encode", mi, coding])
        elif k == "recode":
            ops.append(["recode", mi, sup])
        elif k == "enc":
            ops.append(["enc", bi, coding])
        elif k == "dec":
            ops.append(["dec", bi, fr, sup])
        elif k == "setnone":
            ops.append(["setnone", mi])
    return ops


def build(rnd):
    """seeded-PRNG generation (runner.fast): message kinds, initial codings, <=3 extra bodies, 6..16 op words"""
    bodies = [pick(rnd, _FIXED_BODIES) if rnd.random() < 0.5 else rnd.randbytes(rnd.randint(1, 48)) for _ in range(rnd.randint(0, 3))]
    return {"kinds": rnd.randint(0, 7), "init": rnd.randbytes(3), "bodies": bodies, "prog": rnd.randbytes(4 * rnd.randint(6, 16))}


def run(ctx):
    runner.fast(ctx, build, check_case, ctx.n(QUICK_N, THOROUGH_N))


# ------------------------------------------------------------------ interpreter
def _mkmsg(is_req, fields, raw):
    from mitmproxy import http
    h = http.Headers(fields)
    if is_req:
        return http.Request("h.test", 80, b"POST", b"http", b"", b"/", b"HTTP/1.1", h, raw, None, 0.0, 0.0)
    return http.Response(b"HTTP/1.1", 200, b"OK", h, raw, None, 0.0, 0.0)


def _clone(m):
    from mitmproxy import http
    return _mkmsg(isinstance(m, http.Request), tuple(m.headers.fields), m.raw_content)


class _Run:
    """executes one op on one message; `fresh` => the codec cache is emptied before every call into mitmproxy"""

    def __init__(self, ctx, fresh, seen=frozenset()):
        self.seen = seen
        from mitmproxy.net import encoding
        self.enc = encoding
        self.ctx = ctx
        self.fresh = fresh
        self.failed = False

    def pre(self):
        if self.fresh:
            self.enc._cache = self.enc.CachedDecode(None, None, None, None)

    def call(self, fn, *a):
        self.pre()
        try:
            return ("ok", fn(*a))
        except (ValueError, TypeError, KeyError) as e:
            return ("exc", type(e).__name__)

    def fail(self, bucket, msg):
        self.failed = True
        self.ctx.fail(bucket, ("[fresh cache] " if self.fresh else "[history cache] ") + msg)

    def rawclass(self, lc, raw):
        """root-cause class of a stored body the reference decoder rejects: was exactly this (coding, raw) pair fed to
        mitmproxy's (lenient) decoder earlier in the history, i.e. is it a replay out of the codec cache?"""
        if self.fresh:
            return "fresh-cache"
        if (lc, raw) in self.seen:
            return "replayed-empty-raw" if raw == b"" else "replayed-foreign-raw"
        return "bad-raw"

    # -- absolute clauses
    def check_stored(self, m, what, c, opname):
        """after content `c` was stored in m under the current header"""
        ce = m.headers.get("content-encoding")
        lc = (ce or "identity").lower()
        if lc not in SUPPORTED and lc not in ("identity", "none"):
            return
        raw = m.raw_content
        r = refdec(ce if lc in SUPPORTED else None, raw)
        if r[0] == "err" or r[1] != c:
            self.fail("raw-not-decodable:%s:%s" % (lc, self.rawclass(lc, raw)),
                      "%s: after storing %r under %r the raw body %r is %s for the reference decoder"
                      % (opname, c[:40], ce, raw[:40], "invalid" if r[0] == "err" else "decoded to %r" % (r[1][:40],)))
        got = self.call(m.get_content)
        if got != ("ok", c):
            self.fail("readback:%s" % lc, "%s: stored %r under %r, content reads back %r" % (opname, c[:40], ce, got))
        if "transfer-encoding" not in m.headers:
            cl = m.headers.get("content-length")
            if cl != str(len(raw)):
                self.fail("content-length:%s" % lc, "%s: Content-Length %r but raw body has %d bytes" % (opname, cl, len(raw)))

    def snap(self, m):
        ce = m.headers.get("content-encoding")
        lc = ce.lower() if ce is not None else None
        return (lc, "transfer-encoding" in m.headers, refdec(ce, m.raw_content))

    # -- ops
    def step(self, op, m, bodies):
        k = op[0]
        res = None
        if k == "hdr":
            if op[2] is None:
                m.headers.pop("content-encoding", None)
            else:
                m.headers["content-encoding"] = op[2]
        elif k == "te":
            if op[2]:
                m.headers["transfer-encoding"] = "chunked"
            else:
                m.headers.pop("transfer-encoding", None)
        elif k == "set":
            if op[3] is not None:
                m.headers["content-encoding"] = op[3]
            c = bodies[op[2] % len(bodies)]
            res = self.call(m.set_content, c)
            if res[0] == "ok":
                self.check_stored(m, "content", c, "set_content")
        elif k == "setnone":
            res = self.call(m.set_content, None)
            if m.raw_content is not None:
                self.fail("setnone", "content=None left raw_content %r" % (m.raw_content,))
        elif k == "get":
            res = self.call(m.get_content, op[2])
        elif k == "raw":
            kind, param, mut = op[3]
            m.raw_content = foreign(kind, bodies[op[2] % len(bodies)], param, mut)
        elif k == "rawm":
            if op[4] is not None:
                m.headers["content-encoding"] = op[4]
            lc = (m.headers.get("content-encoding") or "").lower()
            kind = {"gzip": "gzip", "deflate": "zlib", "br": "br", "zstd": "zstd"}.get(lc)
            b = bodies[op[2] % len(bodies)]
            m.raw_content = ref_encode(kind, b, op[3]) if kind else b
        elif k == "decode":
            old = self.call(m.get_content)
            had_raw = bool(m.raw_content)
            res = self.call(m.decode, op[2])
            if res[0] == "ok" and old[0] == "ok" and had_raw:
                if "content-encoding" in m.headers:
                    self.fail("decode-keeps-header", "decode() left Content-Encoding %r" % m.headers["content-encoding"])
                else:
                    self.check_stored(m, "content", old[1], "decode")
            res = (res[0], old)
        elif k == "encode":
            old_raw = m.raw_content
            res = self.call(m.encode, op[2])
            if res[0] == "ok" and old_raw is not None:
                self.check_stored(m, "content", old_raw, "encode(%s)" % op[2])
        elif k == "recode":
            old = self.call(m.get_content)
            r1 = self.call(m.decode)
            r2 = self.call(m.encode, op[2]) if r1[0] == "ok" else None
            if old[0] == "ok" and old[1] is not None and r1[0] == "ok" and r2 and r2[0] == "ok":
                new = self.call(m.get_content)
                if new != old:
                    self.fail("recode-changes-content:%s" % op[2].lower(),
                              "content %r became %r after decode()+encode(%r)" % (old[1][:40], new, op[2]))
                lc = (m.headers.get("content-encoding") or "").lower()
                if lc in SUPPORTED:
                    self.check_stored(m, "content", old[1], "decode+encode(%s)" % op[2])
            res = (old, r1[0], r2[0] if r2 else None)
        else:
            raise AssertionError(op)
        return (res, self.snap(m))

    def direct(self, op, bodies):
        k = op[0]
        if k == "enc":
            b = bodies[op[1] % len(bodies)]
            r = self.call(self.enc.encode, b, op[2])
            lc = op[2].lower()
            if r[0] == "ok" and lc in SUPPORTED:
                d = refdec(lc, r[1])
                if d != ("ok", b):
                    self.fail("raw-not-decodable:%s:%s" % (lc, self.rawclass(lc, r[1])),
                              "encoding.encode(%r, %r) = %r which the reference decoder %s"
                              % (b[:40], op[2], r[1][:40], "rejects" if d[0] == "err" else "decodes to %r" % (d[1][:40],)))
                return ("enc", d)
            if r[0] == "ok":
                return ("enc-other", r[1])
            return r
        if k == "dec":
            b = bodies[op[1] % len(bodies)]
            kind, param, mut = op[2]
            data = foreign(kind, b, param, mut)
            r = self.call(self.enc.decode, data, op[3])
            lc = op[3].lower()
            valid = mut in ("ok",) and {"gzip": "gzip", "zlib": "deflate", "rawdeflate": "deflate", "br": "br",
                                        "zstd": "zstd"}[kind] == lc
            if valid and r != ("ok", b):
                self.fail("decode-wrong:%s" % lc, "encoding.decode(<%s of %r>, %r) = %r" % (kind, b[:40], op[3], r))
            return r
        raise AssertionError(op)


def _hit(cache, op, m, bodies):
    """is the shared cache entry relevant for this op (same coding and same body/raw)?  coverage bookkeeping only"""
    if cache.encoding is None:
        return False
    k = op[0]
    if k in ("enc",):
        return op[2].lower() == cache.encoding and bodies[op[1] % len(bodies)] == cache.decoded
    if k == "dec":
        return op[3].lower() == cache.encoding and foreign(op[2][0], bodies[op[1] % len(bodies)], op[2][1], op[2][2]) == cache.encoded
    if m is None:
        return False
    ce = (m.headers.get("content-encoding") or "").lower()
    if k == "set":
        if op[3] is not None:
            ce = op[3].lower()
        return ce == cache.encoding and bodies[op[2] % len(bodies)] == cache.decoded
    if k in ("get", "decode"):
        return ce == cache.encoding and m.raw_content == cache.encoded
    if k in ("encode", "recode"):
        return op[2].lower() == cache.encoding and (m.raw_content == cache.decoded or m.raw_content == cache.encoded)
    return False


def check_case(case, ctx):
    from mitmproxy.net import encoding
    EMPTY = encoding.CachedDecode(None, None, None, None)
    bodies = [b""] + list(case["bodies"])
    msgs = []
    for i in range(3):
        x = case["init"][i]
        b = bodies[(x // 8) % len(bodies)]
        if x % 8 == 7:
            fields, raw = (), b
        else:
            sup = _SUP[x % 8 % 4]
            kind = {"gzip": "gzip", "deflate": "zlib", "br": "br", "zstd": "zstd"}[sup]
            fields, raw = ((b"Content-Encoding", sup.encode()),), ref_encode(kind, b, x // 32)
        msgs.append(_mkmsg(bool(case["kinds"] >> i & 1), fields, raw))
    ops = case.get("ops") or decode_ops(case["prog"])   # hand-written witnesses give "ops" explicitly
    encoding._cache = EMPTY
    shape = []
    hits = 0
    seen = set()   # (coding, raw) pairs that were in front of mitmproxy's decoder so far
    try:
        for op in ops:
            k = op[0]
            direct = k in ("enc", "dec")
            m = None if direct else msgs[op[1] % len(msgs)]
            # twin: same pre-state, empty cache
            saved = encoding._cache
            twin = _Run(ctx, True)
            obs_t = twin.direct(op, bodies) if direct else twin.step(op, _clone(m), bodies)
            encoding._cache = saved
            hit = _hit(saved, op, m, bodies)
            coding = op[2] if k in ("encode", "recode", "enc") else op[3] if k == "dec" else (
                (m.headers.get("content-encoding") or "-") if m is not None else "-")
            if direct and k == "dec":
                seen.add((op[3].lower(), foreign(op[2][0], bodies[op[1] % len(bodies)], op[2][1], op[2][2])))
            elif not direct:
                seen.add(((m.headers.get("content-encoding") or "").lower(), m.raw_content))
            real = _Run(ctx, False, seen)
            obs_r = real.direct(op, bodies) if direct else real.step(op, m, bodies)
            shape.append((k, str(coding).lower(), hit))
            if hit:
                hits += 1
                ctx.cls("hit:%s:%s" % (k, str(coding).lower()))
            if obs_r != obs_t and not real.failed and not twin.failed:
                what = "result" if obs_r[0] != obs_t[0] else "state"
                if (what == "state" and not direct and obs_r[1][:2] == obs_t[1][:2] and obs_r[1][2] == ("err",)
                        and obs_t[1][2][0] == "ok" and obs_r[1][0] in SUPPORTED):
                    # same content stored, but only the history run's raw body is rejected by the reference decoder:
                    # classify like the absolute clause does (replayed foreign/empty raw out of the cache, or not)
                    ctx.fail("raw-not-decodable:%s:%s" % (obs_r[1][0], real.rawclass(obs_r[1][0], m.raw_content)),
                             "op %r stored raw body %r which the reference decoder rejects; with an empty cache -> %r"
                             % (op, (m.raw_content or b"")[:40], obs_t))
                    continue
                ctx.fail("history-dependent:%s:%s:%s" % (k, str(coding).lower(), what),
                         "op %r: with the cache left by earlier calls -> %r; with an empty cache -> %r" % (op, obs_r, obs_t))
    finally:
        encoding._cache = EMPTY
    if hits:
        ctx.nt((tuple(shape), tuple(len(b) for b in bodies)), "nontrivial")
    else:
        ctx.cls("no-cache-interaction")
