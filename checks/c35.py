"""C35 -- header collections behave as a case-insensitive ordered multimap; HTTP/1 serialisation round-trips.

Two kinds of cases:
 ["ops", initial fields, [op, ...]]   a history of <= 12 operations on one Headers object (names from a small alphabet
      differing only in case, given as str or bytes; repeated names).  Before/after every operation the raw `fields`
      tuple is read and the step is checked against a *relational* multimap specification written here (pure Python on
      lists of (name, value) bytes pairs): the operation's return value / exception is what an ordered, case-insensitive
      multimap with ", "-folding lookups returns for the pre-state, and the post-state is related to the pre-state as
      the operation demands (untouched fields keep spelling and relative order; positions/spelling of *replaced* fields
      are not pinned).
 ["ser", fields]   a list of valid HTTP/1 fields (token names, field-content values without leading/trailing OWS,
      obs-text allowed): bytes(Headers(fields)) is parsed by (a) mitmproxy's http1 _read_headers and (b) an independent
      header-block parser written here; both must give back exactly the fields.
"""
import contextlib
import signal

import runner
from dmgen import pick, text

PID = "C35"
LEVEL = "exploration"
TECHNIQUE = "seeded-PRNG op-sequence generation vs. relational multimap specification; serialise/parse round trip with own parser"
RULE = ("histories of <=12 ops (26 op kinds) over names {A,a,B,b,Set-Cookie,set-cookie,SET-COOKIE,x-y} as str/bytes with "
        "<=5 initial fields, plus valid field lists (<=8 fields, token names, field-content values); non-trivial = "
        "history touches >=2 spellings of one name, or a field list with repeated/case-variant names or OWS/obs-text "
        "inside values; distinct by full case")
ASSUMPTIONS = ["names are ASCII tokens (case-insensitivity is ASCII-only)",
               "equality is only asserted for equal field lists and for lists differing in values/order/length"]
LEVEL_TEXT = "randomised operation histories checked step by step against a relational specification"
LEVEL_NOTE = "specification written from the property statement and the Headers docstring"
QUICK_N, THOROUGH_N = 600_000, 6_000_000

NAMES = ["A", "a", "B", "b", "Set-Cookie", "set-cookie", "SET-COOKIE", "x-y"]
VALUES = ["1", "2", "3", "", "x, y", "a=b; Path=/", "\xe9", "\udcff", "v v", "0"]

_NAME_W = [0, 1, 0, 1, 0, 1, 2, 3, 4, 5, 6, 7]      # name indices, weighted towards A/a so that spellings collide
_KINDS = ["getitem", "get", "contains", "setitem", "setitem", "add", "add", "insert", "delitem", "pop", "get_all",
          "set_all", "set_all", "iter", "len", "items", "keys", "values", "eq", "copy", "update", "setdefault", "popitem",
          "clear", "bytes", "state"]
_tchar = "!#$%&'*+-.^_`|~0123456789abcdefghijklmnopqrstuvwxyzABCDEFGHIJKLMNOPQRSTUVWXYZ"
_TOKS = ["Host", "host", "HOST", "Set-Cookie", "set-cookie", "Content-Length", "X", "x", "a", "A"]
_FVALS = [b"", b"a", b"a: b", b"a,b", b"x  y", b"\xff", b"caf\xc3\xa9", b"a\tb", b":", b"::1", b"\"q\""]


def _g_name(rnd):
    return [pick(rnd, _NAME_W), rnd.random() < 0.5]      # (index, pass as bytes?)


def _g_value(rnd):
    return [rnd.randrange(len(VALUES)), rnd.random() < 0.5]


def _g_op(rnd):
    k = pick(rnd, _KINDS)
    if k in ("getitem", "get", "contains", "delitem", "get_all"):
        return [k, _g_name(rnd)]
    if k in ("setitem", "add", "copy", "setdefault"):
        return [k, _g_name(rnd), _g_value(rnd)]
    if k == "insert":
        return [k, rnd.randint(-3, 8), _g_name(rnd), _g_value(rnd)]
    if k == "pop":
        return [k, _g_name(rnd), rnd.random() < 0.5]
    if k == "set_all":
        return [k, _g_name(rnd), [_g_value(rnd) for _ in range(rnd.randint(0, 3))]]
    if k in ("items", "keys", "values"):
        return [k, rnd.random() < 0.5]
    if k == "update":
        return [k, [[_g_name(rnd), _g_value(rnd)] for _ in range(rnd.randint(0, 3))]]
    return [k]


def _g_fval(rnd):
    if rnd.random() < 0.3:
        return pick(rnd, _FVALS)
    out = bytearray()
    for _ in range(rnd.randint(0, 10)):
        r = rnd.random()
        out.append(rnd.randint(0x21, 0x7E) if r < 0.6 else rnd.randint(0x80, 0xFF) if r < 0.8 else pick(rnd, [0x20, 0x09, 0x3A, 0x2C]))
    return bytes(out).strip(b" \t")


def build(rnd):
    if rnd.random() < 0.2:
        return ["ser", [[(pick(rnd, _TOKS) if rnd.random() < 0.5 else text(rnd, _tchar, 1, 8)).encode("ascii"), _g_fval(rnd)]
                        for _ in range(rnd.randint(0, 8))]]
    return ["ops", [[pick(rnd, _NAME_W[2:]), rnd.randrange(len(VALUES))] for _ in range(rnd.randint(0, 5))],
            [_g_op(rnd) for _ in range(rnd.randint(3, 12))]]


def run(ctx):
    runner.fast(ctx, build, check_case, ctx.n(QUICK_N, THOROUGH_N))


# ------------------------------------------------------------------ specification helpers (pure Python)
def lower(b):
    return bytes(c + 32 if 65 <= c <= 90 else c for c in b)


def to_b(x):
    return x if isinstance(x, bytes) else x.encode("utf-8", "surrogateescape")


def to_s(b):
    return b.decode("utf-8", "surrogateescape")


def spec_get_all(fields, name):
    n = lower(name)
    return [v for k, v in fields if lower(k) == n]


def spec_others(fields, names):
    ns = {lower(n) for n in names}
    return [(k, v) for k, v in fields if lower(k) not in ns]


def spec_first_names(fields):
    seen, out = set(), []
    for k, _ in fields:
        if lower(k) not in seen:
            seen.add(lower(k))
            out.append(k)
    return out


def fold(values):
    return ", ".join(to_s(v) for v in values)


def ref_parse_block(block):
    """independent HTTP/1 header block parser (RFC 9112 5): CRLF-terminated lines, name ":" OWS value OWS"""
    if block == b"":
        return []
    if not block.endswith(b"\r\n"):
        return None
    out = []
    for line in block[:-2].split(b"\r\n"):
        i = line.find(b":")
        if i <= 0:
            return None
        name, value = line[:i], line[i + 1:]
        while value[:1] in (b" ", b"\t"):
            value = value[1:]
        while value[-1:] in (b" ", b"\t"):
            value = value[:-1]
        out.append((name, value))
    return out


# ------------------------------------------------------------------ oracle
def _arg_name(a):
    s = NAMES[a[0]]
    return s.encode() if a[1] else s


def _arg_value(a):
    s = VALUES[a[0]]
    return to_b(s) if a[1] else s


def _call(fn, *a):
    try:
        return ("ok", fn(*a))
    except KeyError:
        return ("KeyError",)


class _Hang(BaseException):
    pass


@contextlib.contextmanager
def _deadline(cpu_seconds):
    """the mixin methods of MutableMapping loop over the collection (clear() = popitem() until KeyError): a broken
    __delitem__/__iter__ makes them spin forever.  Turn that into a reported failure instead of a stuck campaign.
    CPU time of this process (ITIMER_VIRTUAL), not wall clock, so machine load cannot trigger it."""
    def on_alarm(signum, frame):
        raise _Hang()
    old_handler = signal.signal(signal.SIGVTALRM, on_alarm)
    signal.setitimer(signal.ITIMER_VIRTUAL, cpu_seconds)
    try:
        yield
    finally:
        signal.setitimer(signal.ITIMER_VIRTUAL, 0)
        signal.signal(signal.SIGVTALRM, old_handler)


def check_case(case, ctx):
    if case[0] == "ser":
        return _check_ser(case[1], ctx)
    from mitmproxy.http import Headers  # noqa: F401  (import cost must not count against the deadline)
    try:
        with _deadline(2.0):
            _check_ops(case, ctx)
    except _Hang:
        ctx.fail("hang", "an operation of the history did not terminate within 2 s of CPU time")


def _check_ops(case, ctx):
    from mitmproxy.http import Headers
    _, init, ops = case
    h = Headers([(NAMES[n].encode(), to_b(VALUES[v])) for n, v in init])
    touched = {}
    for op in ops:
        k = op[0]
        ctx.cls("op:" + k)
        pre = [tuple(f) for f in h.fields]

        def bad(what, msg):
            ctx.fail("%s:%s" % (k, what), "op %r on %r: %s (fields now %r)" % (op, pre, msg, h.fields))

        def same_state():
            if [tuple(f) for f in h.fields] != pre:
                bad("mutates", "read-only operation changed the fields")

        name = _arg_name(op[1]) if len(op) > 1 and isinstance(op[1], list) and k not in ("update", "insert") else None
        if k == "insert":
            name = _arg_name(op[2])
        if name is not None:
            touched.setdefault(lower(to_b(name)), set()).add(to_b(name))
        nb = to_b(name) if name is not None else None
        try:
            if k == "getitem":
                r = _call(h.__getitem__, name)
                vals = spec_get_all(pre, nb)
                want = ("ok", fold(vals)) if vals else ("KeyError",)
                if r != want:
                    bad("result", "got %r, multimap says %r" % (r, want))
                same_state()
            elif k == "get":
                r = h.get(name, "dflt")
                vals = spec_get_all(pre, nb)
                if r != (fold(vals) if vals else "dflt"):
                    bad("result", "got %r for values %r" % (r, vals))
                same_state()
            elif k == "contains":
                r = name in h
                if r != bool(spec_get_all(pre, nb)):
                    bad("result", "got %r" % r)
                same_state()
            elif k in ("setitem", "set_all"):
                if k == "setitem":
                    newv = [_arg_value(op[2])]
                    h[name] = newv[0]
                else:
                    newv = [_arg_value(v) for v in op[2]]
                    h.set_all(name, list(newv))
                post = [tuple(f) for f in h.fields]
                if spec_get_all(post, nb) != [to_b(v) for v in newv]:
                    bad("values", "values for %r are %r, expected %r" % (name, spec_get_all(post, nb), newv))
                if spec_others(post, [nb]) != spec_others(pre, [nb]):
                    bad("untouched", "other fields changed: %r -> %r" % (spec_others(pre, [nb]), spec_others(post, [nb])))
            elif k == "add":
                v = _arg_value(op[2])
                h.add(name, v)
                if [tuple(f) for f in h.fields] != pre + [(nb, to_b(v))]:
                    bad("post", "expected the field appended with the given spelling")
            elif k == "insert":
                v = _arg_value(op[3])
                i = op[1]
                h.insert(i, name, v)
                want = list(pre)
                want.insert(i, (nb, to_b(v)))
                if [tuple(f) for f in h.fields] != want:
                    bad("post", "expected %r" % (want,))
            elif k == "delitem":
                r = _call(h.__delitem__, name)
                vals = spec_get_all(pre, nb)
                if (r[0] == "KeyError") != (not vals):
                    bad("result", "got %r with values %r" % (r, vals))
                if [tuple(f) for f in h.fields] != spec_others(pre, [nb]):
                    bad("post", "expected %r" % (spec_others(pre, [nb]),))
            elif k == "pop":
                vals = spec_get_all(pre, nb)
                r = _call(h.pop, name, "dflt") if op[2] else _call(h.pop, name)
                want = ("ok", fold(vals)) if vals else (("ok", "dflt") if op[2] else ("KeyError",))
                if r != want:
                    bad("result", "got %r, expected %r" % (r, want))
                if [tuple(f) for f in h.fields] != spec_others(pre, [nb]):
                    bad("post", "expected %r" % (spec_others(pre, [nb]),))
            elif k == "get_all":
                r = h.get_all(name)
                if r != [to_s(v) for v in spec_get_all(pre, nb)]:
                    bad("result", "got %r" % (r,))
                same_state()
            elif k == "iter":
                r = list(iter(h))
                if r != [to_s(n) for n in spec_first_names(pre)]:
                    bad("result", "got %r" % (r,))
                same_state()
            elif k == "len":
                if len(h) != len(spec_first_names(pre)):
                    bad("result", "got %r" % len(h))
                same_state()
            elif k in ("items", "keys", "values"):
                multi = op[1]
                r = list(getattr(h, k)(multi))
                if multi:
                    full = [(to_s(a), to_s(b)) for a, b in pre]
                else:
                    full = [(to_s(n), fold(spec_get_all(pre, n))) for n in spec_first_names(pre)]
                want = full if k == "items" else [x[0] for x in full] if k == "keys" else [x[1] for x in full]
                if [tuple(x) if isinstance(x, (tuple, list)) else x for x in r] != want:
                    bad("result:multi=%s" % multi, "got %r, expected %r" % (r, want))
                same_state()
            elif k == "eq":
                other = Headers(list(pre))
                if not (h == other) or (h != other):
                    bad("equal-fields", "not equal to a Headers object with the same fields")
                if pre:
                    if h == Headers(list(pre[:-1])):
                        bad("shorter", "equal to a shorter field list")
                    if h == Headers(list(pre[:-1]) + [(pre[-1][0], pre[-1][1] + b"x")]):
                        bad("value", "equal although a value differs")
                    if len(pre) > 1 and pre[0] != pre[-1] and h == Headers([pre[-1]] + list(pre[1:-1]) + [pre[0]]):
                        bad("order", "equal although the order differs")
                if h == list(pre) or h == 5:
                    bad("foreign", "equal to a non-multidict")
                same_state()
            elif k == "copy":
                c = h.copy()
                if type(c) is not type(h) or [tuple(f) for f in c.fields] != pre or not (c == h):
                    bad("result", "copy has %r" % (c.fields,))
                c[_arg_name(op[1])] = _arg_value(op[2])
                c.add("Zz", "1")
                same_state()
            elif k == "update":
                pairs = [(_arg_name(n), _arg_value(v)) for n, v in op[1]]
                for n, _ in pairs:
                    touched.setdefault(lower(to_b(n)), set()).add(to_b(n))
                # pass either a list of pairs or (when names are distinct objects) a dict
                h.update(pairs)
                post = [tuple(f) for f in h.fields]
                names = [to_b(n) for n, _ in pairs]
                last = {}
                for n, v in pairs:
                    last[lower(to_b(n))] = to_b(v)
                for ln, v in last.items():
                    if spec_get_all(post, ln) != [v]:
                        bad("values", "after update %r: values for %r are %r" % (pairs, ln, spec_get_all(post, ln)))
                if spec_others(post, names) != spec_others(pre, names):
                    bad("untouched", "other fields changed")
            elif k == "setdefault":
                v = _arg_value(op[2])
                vals = spec_get_all(pre, nb)
                r = h.setdefault(name, v)
                if vals:
                    if r != fold(vals):
                        bad("result", "got %r, existing values %r" % (r, vals))
                    same_state()
                else:
                    if to_b(r) != to_b(v):
                        bad("result", "got %r" % (r,))
                    if [tuple(f) for f in h.fields] != pre + [(nb, to_b(v))]:
                        bad("post", "expected the field appended")
            elif k == "popitem":
                r = _call(h.popitem)
                if not pre:
                    if r != ("KeyError",):
                        bad("result", "got %r on empty headers" % (r,))
                else:
                    n = spec_first_names(pre)[0]
                    # any present name is acceptable for popitem; mitmproxy takes the first
                    if r[0] != "ok" or lower(to_b(r[1][0])) not in {lower(x) for x, _ in pre}:
                        bad("result", "got %r" % (r,))
                    else:
                        rn = to_b(r[1][0])
                        if r[1][1] != fold(spec_get_all(pre, rn)):
                            bad("result", "value %r, expected %r" % (r[1][1], fold(spec_get_all(pre, rn))))
                        if [tuple(f) for f in h.fields] != spec_others(pre, [rn]):
                            bad("post", "expected %r" % (spec_others(pre, [rn]),))
            elif k == "clear":
                h.clear()
                if len(h.fields) or len(h) or list(h):
                    bad("post", "not empty")
            elif k == "bytes":
                r = bytes(h)
                want = b"".join(a + b": " + b + b"\r\n" for a, b in pre)
                if r != want:
                    bad("result", "got %r, expected %r" % (r, want))
                same_state()
            elif k == "state":
                c = Headers.from_state(h.get_state())
                if [tuple(f) for f in c.fields] != pre:
                    bad("result", "from_state(get_state()) has %r" % (c.fields,))
                same_state()
            else:
                raise AssertionError(op)
        except AssertionError:
            raise
        except Exception as e:
            ctx.crash(e, "raises:%s" % k)
            return
        # global invariants
        for f in h.fields:
            if not (isinstance(f, tuple) and len(f) == 2 and isinstance(f[0], bytes) and isinstance(f[1], bytes)):
                bad("fields-type", "field %r is not a (bytes, bytes) tuple" % (f,))
                return
    multi = [n for n, sp in touched.items() if len(sp) >= 2]
    ctx.cls("ops")
    if multi:
        ctx.nt(case, "ops:multi-spelling")
    else:
        ctx.cls("ops:single-spelling")


def _check_ser(fields, ctx):
    from mitmproxy.http import Headers
    from mitmproxy.net.http.http1 import read as h1read
    fields = [(bytes(n), bytes(v)) for n, v in fields]
    h = Headers(fields)
    block = bytes(h)
    names = [lower(n) for n, _ in fields]
    special = len(set(names)) < len(names) or any(b" " in v or b"\t" in v or b":" in v or not v or not v.isascii() for _, v in fields)
    mine = ref_parse_block(block)
    if mine != fields:
        ctx.fail("ser:independent-parser", "fields %r serialise to %r which an RFC 9112 parser reads as %r" % (fields, block, mine))
    lines = block.split(b"\r\n")[:-1] if block else []
    try:
        back = h1read._read_headers(lines)
    except Exception as e:
        ctx.crash(e, "ser:read_headers-raises")
        return
    if [tuple(f) for f in back.fields] != fields:
        ctx.fail("ser:read_headers", "fields %r -> %r -> %r" % (fields, block, back.fields))
    elif not (back == h):
        ctx.fail("ser:eq", "parsed headers compare unequal")
    ctx.cls("ser")
    if special:
        ctx.nt(case_key(fields), "ser:special")
    else:
        ctx.cls("ser:plain")


def case_key(fields):
    return ("ser", tuple(fields))
