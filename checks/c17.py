"""C17 — the certificate store is bounded and never serves a certificate for other names.

One case = one history of `get_cert(cn, sans)` / `add_cert(custom, *names)` calls on a fresh `CertStore` (CA key and the
pool of custom leaf certificates are created once per process) whose capacity is lowered to 2..5 through the instance
attribute `STORE_CAP`, so that histories request more distinct name sets than fit.

Oracle (plain-Python model):
* bound: after every call the number of generated entries in the store (keys that are not plain names) and the length of
  the expiry queue are <= capacity;
* name consistency: the returned entry is either one of the registered custom certificates, currently registered under a
  name that is an asterisk form of one of the requested names (name itself, "*.<every proper suffix>", str(ip)) or under
  "*", or a generated certificate whose CN equals the requested CN and whose SAN set equals the requested SANs, issued by
  the store's CA;
* repeat: a generated certificate is returned again (same fingerprint) for the same (cn, sans) as long as fewer than
  `capacity` other certificates were generated since it was created (a request that is answered by a custom
  registration is not subject to this clause).
"""
import ipaddress

from hypothesis import strategies as st

PID = "C17"
LEVEL = "exploration"
TECHNIQUE = "Hypothesis operation-history generation vs. plain-Python model of registrations and a FIFO of generated keys"
RULE = ("histories of <=40 get_cert/add_cert calls over 9 related names (a.x.test, b.x.test, c.b.x.test, x.test, *.x.test, "
        "y.test, three IPs), 6 custom certificates and capacity 2..5; non-trivial = more distinct generated name sets "
        "than the capacity, or a request answered by a custom registration through a wildcard form; distinct by history")
ASSUMPTIONS = [
    "CN shorter than 64 characters; at least one of CN / SAN present; SAN lists without duplicates",
    "'while it is cached' is read as: fewer than `capacity` certificates were generated since (FIFO capacity semantics)",
    "generated entries are recognised in CertStore.certs by their non-string key (observation only)",
    "a custom registration between two requests may legitimately change the answer (custom certificates take precedence)",
]
LEVEL_TEXT = ("Random histories with more distinct requests than the capacity are checked step by step against a model; "
              "bounded by 40 steps and capacity <= 5 set on the instance or at construction (plus ~1% histories of 200-330 "
              "requests against an untouched store with the real capacity) and the fixed name universe.")
LEVEL_NOTE = "trusts cryptography's x509 parsing of the returned certificates"
QUICK_N, THOROUGH_N = 24_000, 600_000

DNS = ["a.x.test", "b.x.test", "c.b.x.test", "x.test", "*.x.test", "y.test"]
IPS = ["10.0.0.1", "10.0.0.2", "::1"]
SAN_UNIVERSE = [("dns", n) for n in DNS] + [("ip", n) for n in IPS]
# names longer than 64 characters cannot be a certificate CN (dummy_cert omits it): the store must still bound and key them
LONG = ["%s%d.long.x.test" % ("l" * 58, i) for i in range(6)]
CNS = [None, "a.x.test", "b.x.test", "c.b.x.test", "x.test", "*.x.test", "10.0.0.1", "y.test"] + LONG
# custom leaf certificates: (cn, [sans])
CUSTOM = [
    ("a.x.test", [("dns", "a.x.test")]),
    ("*.x.test", [("dns", "*.x.test")]),
    (None, [("dns", "x.test"), ("ip", "10.0.0.1")]),
    ("other.test", []),
    ("*.test", [("dns", "*.test")]),
    ("wild.invalid", [("dns", "wild.invalid")]),
]
EXTRA_NAMES = ["*", "*.test", "*.b.x.test", "b.x.test", "10.0.0.2", "*.x.test", "y.test", "*.a.x.test", "test", "::1"]

_sans = st.lists(st.integers(0, len(SAN_UNIVERSE) - 1), max_size=3, unique=True)
# how the SANs are handed over: get_cert's contract is `sans: Iterable[x509.GeneralName]`, so every iterable is in contract
CONTAINERS = ["GeneralNames", "list", "tuple", "generator", "iter", "map"]
_cont = st.sampled_from([0, 1, 1, 2, 3, 4, 5])
_get = st.tuples(st.just("get"), st.integers(0, len(CNS) - 1), _sans, st.sampled_from([None, None, "org"]), _cont)
_add = st.tuples(st.just("add"), st.integers(0, len(CUSTOM) - 1),
                 st.lists(st.integers(0, len(EXTRA_NAMES) - 1), max_size=2))
_again = st.tuples(st.just("again"), st.integers(0, 40), _cont)  # repeat the k-th earlier get
# same CN as the k-th earlier get, other SANs (lookup keys of one request must not influence another one)
_vary = st.tuples(st.just("vary"), st.integers(0, 40), _sans, _cont)


def _weighted(*pairs):
    """one_of with integer weights (one_of drops repeated strategy *objects*, so every copy is a distinct .map())"""
    out = []
    for strat, w in pairs:
        # wrapped in a 1-tuple: a mapped one_of would be flattened into its branches and change the weights
        out.extend(st.tuples(strat).map(lambda t: t[0]) for _ in range(w))
    return st.one_of(out)


_op = _weighted((_get, 6), (_again, 3), (_vary, 3), (_add, 2))


def strategy(ctx):
    # "how": the capacity is either lowered on the existing instance (what the repository's test does) or already in
    # force when the store is constructed (subclass with a class-level STORE_CAP); the store must honour both
    small = st.fixed_dictionaries({"cap": st.sampled_from([2, 3, 4, 5]),
                                   "how": st.sampled_from(["class", "instance", "class"]),
                                   "ops": st.lists(_op, min_size=4, max_size=40)})
    # the real capacity, with enough distinct requests to overflow it
    # (few registrations and never "*", otherwise custom certificates answer everything and nothing is generated)
    add_nostar = st.tuples(st.just("add"), st.integers(0, len(CUSTOM) - 1),
                           st.lists(st.integers(2, len(EXTRA_NAMES) - 1), max_size=1))
    get_or_again = _weighted((_get, 8), (_again, 2))
    big = st.fixed_dictionaries({
        "cap": st.just(100),
        "how": st.just("default"),  # untouched store: the real capacity
        "ops": st.tuples(st.lists(add_nostar, max_size=2), st.lists(get_or_again, min_size=200, max_size=330)).map(
            lambda t: list(t[0]) + list(t[1]))})
    if not ctx.thorough:
        return st.integers(0, 119).flatmap(lambda i: big if i == 0 else small)
    return _weighted((big, 1), (small, 19))


def forms(name):
    """asterisk forms of a DNS name as documented: the name, then "*.<suffix>" for every proper suffix"""
    labels = name.split(".")
    out = [name]
    for i in range(1, len(labels)):
        out.append("*." + ".".join(labels[i:]))
    return out


_pki = None


def pki():
    """CA + custom leaf certificates, once per process"""
    global _pki
    if _pki is None:
        from mitmproxy import certs
        key, ca = certs.create_ca("verif", "verif CA", 2048)
        cacert = certs.Cert(ca)
        custom = []
        for cn, sans in CUSTOM:
            c = certs.dummy_cert(key, ca, cn, gn(sans) if sans else gn([]), None, None)
            custom.append(certs.CertStoreEntry(c, key, None, [cacert]))
        _pki = (key, cacert, custom)
    return _pki


def gn(sans):
    from cryptography import x509
    out = []
    for kind, v in sans:
        if kind == "dns":
            out.append(x509.DNSName(v))
        else:
            out.append(x509.IPAddress(ipaddress.ip_address(v)))
    return x509.GeneralNames(out)


def as_container(names, kind):
    items = list(names)
    if kind == "GeneralNames":
        return names
    if kind == "list":
        return items
    if kind == "tuple":
        return tuple(items)
    if kind == "generator":
        return (x for x in items)
    if kind == "iter":
        return iter(items)
    if kind == "map":
        return map(lambda x: x, items)
    raise AssertionError(kind)


def cert_names(cert):
    """(cn, frozenset of (kind, text)) read from the certificate with cryptography only"""
    from cryptography import x509
    c = cert._cert
    attrs = c.subject.get_attributes_for_oid(x509.NameOID.COMMON_NAME)
    cn = attrs[0].value if attrs else None
    try:
        ext = c.extensions.get_extension_for_class(x509.SubjectAlternativeName).value
    except x509.ExtensionNotFound:
        ext = []
    names = set()
    for g in ext:
        if isinstance(g, x509.DNSName):
            names.add(("dns", g.value))
        elif isinstance(g, x509.IPAddress):
            names.add(("ip", str(g.value)))
        else:
            names.add(("other", repr(g)))
    return cn, frozenset(names)


_limited = False


def reset_global_state():
    """Every case starts from the same global state of the code under test: memoisation caches (functools caches) on
    CertStore / module-level functions of mitmproxy.certs are cleared if there are any, so that a case never depends on
    the cases before it and a replay is self-contained.  The address space of the process is capped once, so that
    runaway memory growth inside a call surfaces as MemoryError (reported) instead of the OOM killer taking the shard."""
    global _limited
    from mitmproxy import certs
    if not _limited:
        _limited = True
        try:
            import resource
            soft, hard = resource.getrlimit(resource.RLIMIT_AS)
            cap = 3 * 1024 ** 3
            if soft == resource.RLIM_INFINITY or soft > cap:
                resource.setrlimit(resource.RLIMIT_AS, (cap, hard))
        except Exception:
            pass
    for holder in (certs.CertStore, certs):
        for v in list(vars(holder).values()):
            f = getattr(v, "__func__", v)
            clear = getattr(f, "cache_clear", None)
            if callable(clear):
                clear()


def check_case(case, ctx):
    reset_global_state()
    from mitmproxy import certs

    key, cacert, custom = pki()
    cap = case["cap"]
    how = case.get("how", "instance")
    if how == "class":
        class Store(certs.CertStore):
            STORE_CAP = cap
        store = Store(key, cacert, None, b"", certs.DHParams(b""))
    else:
        store = certs.CertStore(key, cacert, None, b"", certs.DHParams(b""))
        if how == "instance":
            store.STORE_CAP = cap
        else:
            cap = certs.CertStore.STORE_CAP  # "default": whatever the fixed capacity is
    if store.STORE_CAP != cap:
        from runner import HarnessError
        raise HarnessError("capacity not in force")
    custom_fp = {e.cert.fingerprint(): i for i, e in enumerate(custom)}
    registered = {}  # name -> custom index (model of add_cert)
    gen_order = []  # model: (cn, sans) keys of generated certificates in creation order
    gen_fp = {}  # key -> fingerprint of the certificate generated for it (latest)
    gen_at = {}  # key -> number of generations at creation time (1-based)
    ngen = 0
    gets = []
    epoch = 0  # incremented by add_cert
    gen_epoch = {}
    nontrivial = set()
    for op in case["ops"]:
        if op[0] == "add":
            entry = custom[op[1]]
            names = [EXTRA_NAMES[i] for i in op[2]]
            try:
                store.add_cert(entry, *names)
            except Exception as e:
                ctx.crash(e)
                return
            cn, sans = CUSTOM[op[1]]
            if cn:
                registered[cn] = op[1]
            for _, v in sans:
                registered[v] = op[1]
            for n in names:
                registered[n] = op[1]
            epoch += 1
        else:
            if op[0] == "again":
                if not gets:
                    continue
                cni, sani, org = gets[op[1] % len(gets)]
            elif op[0] == "vary":
                if not gets:
                    continue
                cni, _, org = gets[op[1] % len(gets)]
                sani = list(op[2])
                if CNS[cni] is None and not sani:
                    sani = [0]
                gets.append((cni, sani, org))
            else:
                cni, sani, org = op[1], list(op[2]), op[3]
                if CNS[cni] is None and not sani:
                    sani = [0]
                gets.append((cni, sani, org))
            cn = CNS[cni]
            sans = [SAN_UNIVERSE[i] for i in sani]
            want_len = {"get": 5, "again": 3, "vary": 4}[op[0]]
            cont = CONTAINERS[op[want_len - 1] % len(CONTAINERS)] if len(op) >= want_len else "GeneralNames"
            ctx.cls("sans passed as " + cont)
            try:
                entry = store.get_cert(cn, as_container(gn(sans), cont), org)
            except Exception as e:
                ctx.crash(e)
                return
            fp = entry.cert.fingerprint()
            k = (cn, tuple(sans))
            allowed = []
            if cn:
                allowed += forms(cn)
            for kind, v in sans:
                allowed += forms(v) if kind == "dns" else [str(ipaddress.ip_address(v))]
            allowed.append("*")
            if fp in custom_fp:
                ci = custom_fp[fp]
                hits = [n for n in allowed if registered.get(n) == ci]
                if not hits:
                    was = [n for n, c in registered.items() if c == ci]
                    ctx.fail("custom-not-matching:%s" % ("registered-elsewhere" if was else "never-registered"),
                             "get_cert(%r, %r) returned custom cert #%d %r which is registered under %r; allowed names %r"
                             % (cn, sans, ci, CUSTOM[ci], sorted(was), allowed))
                else:
                    if not any(h in (cn,) or ("dns", h) in sans or ("ip", h) in sans for h in hits):
                        nontrivial.add("custom-via-wildcard")
                        ctx.cls("custom via " + ("'*'" if hits == ["*"] else "wildcard form"))
                    else:
                        ctx.cls("custom via exact name")
            else:
                gcn, gnames = cert_names(entry.cert)
                cn_ok = gcn == cn or (gcn is None and cn is not None and len(cn) >= 64)  # over-long CNs are omitted
                if not cn_ok or gnames != frozenset(sans):
                    ctx.fail("generated-wrong-names:%s" % ("cn" if not cn_ok else "sans"),
                             "get_cert(%r, %r) returned a generated certificate for cn=%r sans=%r" % (cn, sans, gcn, sorted(gnames)))
                if entry.cert.issuer != cacert.subject:
                    ctx.fail("generated-wrong-issuer", repr(entry.cert.issuer))
                if k in gen_fp and gen_fp[k] == fp:
                    ctx.cls("generated: cache hit")
                else:
                    # a new certificate was generated; was the old one still supposed to be cached?
                    if k in gen_fp and ngen - gen_at[k] < cap:
                        ctx.fail("repeat-different:within-capacity",
                                 "get_cert(%r, %r) generated a new certificate although only %d < capacity %d "
                                 "certificates were generated since the previous one" % (cn, sans, ngen - gen_at[k], cap))
                    elif k in gen_fp:
                        ctx.cls("generated: regenerated after eviction")
                    ngen += 1
                    gen_fp[k] = fp
                    gen_at[k] = ngen
                    gen_epoch[k] = epoch
                    gen_order.append(k)
                    ctx.cls("generated: new")
                    if len(set(gen_order)) > cap:
                        nontrivial.add("over-capacity" if cap < 100 else "over-capacity(cap=100)")
        # bound, after every call
        # (counted in `certs` itself, independently of whatever bookkeeping structure the store uses for expiry)
        try:
            n_generated = sum(1 for kk in store.certs if not isinstance(kk, str))
        except Exception as e:
            from runner import HarnessError
            raise HarnessError("cannot observe CertStore.certs: %r" % (e,))
        try:
            qlen = len(store.expire_queue)
        except Exception:
            qlen = 0
        if n_generated > cap or qlen > cap:
            ctx.fail("bound-exceeded:cap-%s" % ("set-on-instance" if how == "instance" else "at-construction"),
                     "capacity %d (%s) but %d generated entries in certs, expire_queue length %d"
                     % (cap, how, n_generated, qlen))
    if nontrivial:
        ctx.nt((cap, how, case["ops"]), "+".join(sorted(nontrivial)) + " [cap %s]" % how)
    else:
        ctx.cls("trivial-history")
