"""C18 — ALPN negotiation with the client is consistent with offers and upstream.

Part 1 (exhaustive, sharded): every ordered client offer list of length <= 4 without repeats over
{h2, h3, http/1.1, http/1.0, http/0.9, two non-HTTP protocols} (1100 lists) x upstream protocol
{unknown(None), none negotiated(b""), each of the 7 protocols} x client_alpn override {None, http/1.1 = outer connection
of a secure web proxy} x http2 {on, off} = 39 600 combinations, evaluated on the real `alpn_select_callback` with a stub
connection that only provides `get_app_data()`.

Part 2 (Hypothesis, real layer stacks): the mode layer (HttpProxy / ReverseProxy / TransparentProxy) is driven sans-io with
the real NextLayer and TlsConfig addons answering the hooks, so the stack is built exactly the way mitmproxy builds it:
regular proxy (plain CONNECT, then TLS), secure web proxy (outer TLS handshake, CONNECT inside it, then the inner
TLS handshake *inside* the outer session = TLS-over-TLS on the same Client object), reverse and transparent mode. The
peer is a CPython `ssl` client (two chained ones for TLS-over-TLS). "Upstream known" = the server connection was
opened (eager strategy) and carries a negotiated ALPN before the client handshake. The protocol each *client* session
ends up with is judged by the same clauses (outer session of a secure web proxy: clause D; every other: A, B, C).

Clauses (from the statement):
 A  the selected protocol is one of the client's offers, or none;
 B  upstream protocol known (not None) and no secure-web-proxy override  =>  selected in {upstream, none};
 C  http2 disabled  =>  selected != h2;
 D  outer connection of a secure web proxy  =>  selected in {http/1.1, none}.
"""
import itertools
import os
import shutil
import ssl
import tempfile

from hypothesis import strategies as st

from runner import HarnessError, hyp

PID = "C18"
LEVEL = "exploration"
TECHNIQUE = "exhaustive enumeration of the finite selection domain + Hypothesis-sampled real in-memory TLS handshakes"
RULE = ("all 39 600 combinations of offer list (<=4 of 7 protocols, ordered) x upstream protocol (9) x override (2) x http2 (2) "
        "on alpn_select_callback, plus sampled real handshakes through the real layer stacks of 4 proxy shapes (incl. "
        "TLS-over-TLS for secure web proxies); "
        "non-trivial = non-empty offer list; distinct by combination")
ASSUMPTIONS = [
    "ALPN protocol names are non-empty (TLS forbids empty names; OpenSSL never passes one to the callback)",
    "the only client_alpn override in the property's domain is the secure-web-proxy one (http/1.1); addon-chosen values "
    "of client.alpn are outside the quantifier",
    "clause B is not applied on the outer connection of a secure web proxy (there is no upstream for that connection)",
    "part 2 trusts CPython's ssl module as the TLS client",
]
LEVEL_TEXT = ("The selection function is evaluated on its complete finite domain (protocol classes, lists up to length 4); "
              "the wiring into real handshakes is sampled.")
LEVEL_NOTE = "exhaustive for alpn_select_callback over protocol classes; handshake part is sampled"
QUICK_N, THOROUGH_N = 3_200, 100_000  # handshakes (part 2); part 1 is always complete

PROTOS = [b"h2", b"h3", b"http/1.1", b"http/1.0", b"http/0.9", b"acme-tls/1", b"qux"]
UPSTREAM = [None, b""] + PROTOS
OVERRIDE = [None, b"http/1.1"]


class _NoOverlap:
    pass


def judge(ctx, offers, upstream, outer_swp, http2, selected, where):
    """selected: bytes or None (= nothing negotiated)"""
    cls = "upstream=%s" % ("unknown" if upstream is None else "none" if upstream == b"" else upstream.decode())
    if selected is not None and selected not in offers:
        ctx.fail("%snot-offered:%s" % (where, cls), "offers=%r upstream=%r http2=%r outer_swp=%r selected=%r"
                 % (offers, upstream, http2, outer_swp, selected))
    if upstream is not None and not outer_swp:
        if selected is not None and selected != upstream:
            kind = ("upstream-negotiated-none" if upstream == b"" else
                    "upstream-not-offered" if upstream not in offers else "upstream-offered")
            ctx.fail("%sother-than-upstream:%s" % (where, kind),
                     "offers=%r upstream=%r http2=%r selected=%r (expected %r or none)" % (offers, upstream, http2, selected, upstream))
    if not http2 and selected == b"h2":
        ctx.fail("%sh2-although-disabled:%s" % (where, "upstream-h2" if upstream == b"h2" else cls + (",swp" if outer_swp else "")),
                 "offers=%r upstream=%r http2=False outer_swp=%r selected=h2" % (offers, upstream, outer_swp))
    if outer_swp and selected not in (None, b"http/1.1"):
        ctx.fail("%souter-swp-not-http1:%s" % (where, cls), "offers=%r upstream=%r http2=%r selected=%r" % (offers, upstream, http2, selected))


class _StubConn:
    def __init__(self, app_data):
        self._a = app_data

    def get_app_data(self):
        return self._a


def check_callback(case, ctx):
    from mitmproxy.addons import tlsconfig
    from OpenSSL import SSL
    offers, upstream, override, http2 = case
    conn = _StubConn(tlsconfig.AppData(client_alpn=override, server_alpn=upstream, http2=http2))
    try:
        r = tlsconfig.alpn_select_callback(conn, list(offers))
    except Exception as e:
        ctx.crash(e)
        return
    if r is SSL.NO_OVERLAPPING_PROTOCOLS:
        sel = None
    elif isinstance(r, bytes):
        sel = r
    else:
        ctx.fail("cb:bad-return-type", repr(r))
        return
    judge(ctx, offers, upstream, override is not None, http2, sel, "")
    if offers:
        ctx.nt(("cb", tuple(offers), upstream, override, http2))
        ctx.cls("cb: selected %s" % ("none" if sel is None else "upstream" if sel == upstream else "override" if sel == override else "client-preference"))
    else:
        ctx.cls("cb: empty offer list")


# ------------------------------------------------------------------ part 2: real handshakes
_tls = None


def tls_addon(tctx_factory):
    """TlsConfig instance with an in-memory CA, once per process (the confdir only exists while the CA is created)."""
    global _tls
    if _tls is None:
        from mitmproxy.addons import tlsconfig
        ta = tlsconfig.TlsConfig()
        d = tempfile.mkdtemp(prefix="verif-c18-", dir="/dev/shm" if os.path.isdir("/dev/shm") else "/var/tmp")
        try:
            with tctx_factory(ta) as tctx:
                tctx.options.update(confdir=d)
                if ta.certstore is None:
                    raise HarnessError("TlsConfig did not create a certstore")
        finally:
            shutil.rmtree(d, ignore_errors=True)
        _tls = ta
    return _tls


class TlsClient:
    """CPython ssl client over memory BIOs"""

    def __init__(self, offers, sni):
        cctx = ssl.SSLContext(ssl.PROTOCOL_TLS_CLIENT)
        cctx.check_hostname = False
        cctx.verify_mode = ssl.CERT_NONE
        if offers:
            cctx.set_alpn_protocols([o.decode("ascii") for o in offers])
        self.inb, self.outb = ssl.MemoryBIO(), ssl.MemoryBIO()
        self.obj = cctx.wrap_bio(self.inb, self.outb, server_hostname=sni)
        self.done = False

    def step(self):
        if not self.done:
            try:
                self.obj.do_handshake()
                self.done = True
            except ssl.SSLWantReadError:
                pass
        return self.outb.read()

    def alpn(self):
        a = self.obj.selected_alpn_protocol()
        return a.encode() if a is not None else None


class Direct:
    """bytes on the client's TCP connection to the proxy (through the sans-io driver)"""

    def __init__(self, drv, client):
        self.drv, self.client, self.pos = drv, client, 0

    def send(self, data):
        self.drv.recv(self.client, data)

    def recv(self):
        out = self.drv.out(self.client)[self.pos:]
        self.pos += len(out)
        return out


class Tunnel:
    """bytes inside an established TLS session `tc` that itself runs over `lower` (TLS-over-TLS)"""

    def __init__(self, tc, lower):
        self.tc, self.lower = tc, lower

    def send(self, data):
        self.tc.obj.write(data)
        self.lower.send(self.tc.outb.read())

    def recv(self):
        inc = self.lower.recv()
        if inc:
            self.tc.inb.write(inc)
        out = b""
        while True:
            try:
                chunk = self.tc.obj.read(65536)
            except ssl.SSLWantReadError:
                break
            if not chunk:
                break
            out += chunk
        pending = self.tc.outb.read()
        if pending:
            self.lower.send(pending)
        return out


def run_handshake(tc, pipe):
    for _ in range(40):
        out = tc.step()
        if out:
            pipe.send(out)
        inc = pipe.recv()
        if inc:
            tc.inb.write(inc)
        if tc.done and not out and not inc:
            return
    raise HarnessError("handshake did not finish")


_peer_ctx = {}


def upstream_ssl_context(prefer):
    """server-side CPython ssl context of the upstream peer; `prefer` = b"" (no ALPN support: selects nothing) or the one
    protocol the server supports (selected iff mitmproxy offers it).  Self-signed EC certificate, created once per
    process; the PEM file only exists while it is loaded."""
    if "pem" not in _peer_ctx:
        import datetime
        from cryptography import x509
        from cryptography.hazmat.primitives import hashes, serialization
        from cryptography.hazmat.primitives.asymmetric import ec
        from cryptography.x509.oid import NameOID
        key = ec.generate_private_key(ec.SECP256R1())
        name = x509.Name([x509.NameAttribute(NameOID.COMMON_NAME, "example.test")])
        now = datetime.datetime(2020, 1, 1)
        cert = (x509.CertificateBuilder().subject_name(name).issuer_name(name).public_key(key.public_key())
                .serial_number(1).not_valid_before(now).not_valid_after(now + datetime.timedelta(days=36500))
                .add_extension(x509.SubjectAlternativeName([x509.DNSName("example.test")]), critical=False)
                .sign(key, hashes.SHA256()))
        _peer_ctx["pem"] = (key.private_bytes(serialization.Encoding.PEM, serialization.PrivateFormat.PKCS8,
                                              serialization.NoEncryption())
                            + cert.public_bytes(serialization.Encoding.PEM))
    if prefer not in _peer_ctx:
        d = tempfile.mkdtemp(prefix="verif-c18-", dir="/dev/shm" if os.path.isdir("/dev/shm") else "/var/tmp")
        try:
            path = os.path.join(d, "upstream.pem")
            with open(path, "wb") as f:
                f.write(_peer_ctx["pem"])
            sctx = ssl.SSLContext(ssl.PROTOCOL_TLS_SERVER)
            sctx.load_cert_chain(path)
            if prefer:
                sctx.set_alpn_protocols([prefer.decode("ascii")])
            _peer_ctx[prefer] = sctx
        finally:
            shutil.rmtree(d, ignore_errors=True)
    return _peer_ctx[prefer]


class UpstreamPeer:
    """a real TLS server (CPython ssl over memory BIOs) attached to the server connection the proxy opens"""

    def __init__(self, drv, srv, prefer):
        self.drv, self.srv = drv, srv
        self.inb, self.outb = ssl.MemoryBIO(), ssl.MemoryBIO()
        self.obj = upstream_ssl_context(prefer).wrap_bio(self.inb, self.outb, server_side=True)
        self.done = False
        self.error = None

    def feed(self, data):
        self.inb.write(data)
        if not self.done and self.error is None:
            try:
                self.obj.do_handshake()
                self.done = True
            except ssl.SSLWantReadError:
                pass
            except ssl.SSLError as e:
                self.error = e
        out = self.outb.read()
        if out:
            self.drv.recv(self.srv, out)

    def alpn(self):
        a = self.obj.selected_alpn_protocol()
        return a.encode() if a is not None else b""


_env = None


def stack_env():
    """TlsConfig + NextLayer + Proxyserver (for its options) registered once per process; per case only options change.
    None of the three keeps per-connection state that the cases touch (the certstore is a cache of leaf certificates)."""
    global _env
    if _env is None:
        import atexit
        from addons_ctx import shared_addon_context
        from mitmproxy.addons import next_layer
        from mitmproxy.addons.proxyserver import Proxyserver
        ta = tls_addon(shared_addon_context)
        nl = next_layer.NextLayer()
        cm = shared_addon_context(Proxyserver(), ta, nl)
        tctx = cm.__enter__()
        atexit.register(cm.__exit__, None, None, None)
        _env = (tctx, ta, nl)
    return _env


OUTER_OFFERS = [[b"http/1.1"], [b"h2", b"http/1.1"], [b"http/1.1", b"h2"], [], [b"http/1.0"], [b"h2"], [b"http/1.1", b"qux"]]
MODE_OF = {"regular": "regular", "swp": "regular", "reverse": "reverse:https://example.test:443", "transparent": "transparent"}
SHAPES = ["swp", "swp", "regular", "reverse", "transparent"]


def strategy(ctx):
    # "peer": upstream is a real TLS server and mitmproxy's own ServerTLSLayer completes the upstream handshake first
    # (eager strategy), so Server.alpn is whatever the layer stored; "assigned": the harness opens the server connection
    # and assigns the negotiated protocol (also reaches protocols the client did not offer = addon-chosen upstream offers)
    # offer lists: arbitrary ones, plus the short lists that the http2 / http3 options can filter down to nothing
    offers = st.one_of(st.lists(st.sampled_from(PROTOS), max_size=4, unique=True),
                       st.sampled_from([[b"h2"], [b"h2"], [b"h3"], [b"h2", b"h3"], [b"h3", b"h2"], [b"h2", b"qux"],
                                        [b"http/1.1"], [b"h2", b"http/1.1"]]))
    return st.tuples(offers, st.sampled_from(UPSTREAM + [b"", b"", b"h2", b"h2", b"http/1.1", b"h3"]), st.booleans(),
                     st.sampled_from(SHAPES), st.sampled_from([0, 0, 0, 1, 2, 3, 4, 5, 6]),
                     st.sampled_from(["peer", "peer", "assigned"]), st.booleans())


def check_case(case, ctx):
    """[offers, upstream, override, http2]  -> callback row
       [offers, upstream, http2, shape, outer_offers_index(, "peer"|"assigned")] -> real layer stack + real handshake(s)"""
    if len(case) == 4:
        return check_callback(case, ctx)
    import driver
    from mitmproxy import connection
    from mitmproxy.connection import ConnectionState
    from mitmproxy.proxy import context
    from mitmproxy.proxy.layers import modes
    from mitmproxy.proxy.mode_specs import ProxyMode

    offers, upstream, http2, shape, outer_i = case[:5]
    how = case[5] if len(case) > 5 else "assigned"
    http3 = case[6] if len(case) > 6 else True
    tctx, ta, nl = stack_env()
    # the upstream protocol is "known" when the server connection exists and has finished its TLS handshake before the
    # client handshake starts (eager strategy); "unknown" = no server connection yet (lazy strategy)
    tctx.options.update(http2=http2, http3=http3, connection_strategy="lazy" if upstream is None else "eager",
                        ssl_insecure=True)
    client = connection.Client(peername=("192.0.2.7", 51000), sockname=("192.0.2.1", 8080), timestamp_start=1.0,
                               state=ConnectionState.OPEN, proxy_mode=ProxyMode.parse(MODE_OF[shape]))
    c = context.Context(client, tctx.options)
    if shape in ("regular", "swp"):
        top = modes.HttpProxy(c)
    elif shape == "reverse":
        top = modes.ReverseProxy(c)
    else:
        c.server.address = ("example.test", 443)
        top = modes.TransparentProxy(c)

    def hook(h):
        if h.name == "next_layer":
            nl.next_layer(h.data)
        elif h.name == "tls_clienthello":
            ta.tls_clienthello(h.data)
        elif h.name == "tls_start_client":
            # what is known about upstream at the moment the client-side selection is set up
            for p in peers:
                if p.done:
                    known.append(p.alpn())
            ta.tls_start_client(h.data)
        elif h.name == "tls_start_server" and how == "peer":
            ta.tls_start_server(h.data)
        # "assigned": tls_start_server stays unanswered, no upstream handshake is ever needed (see on_open)

    peers = []
    known = []

    def on_open(srv):
        if upstream is None:
            return
        if how == "peer":
            peer = UpstreamPeer(drv, srv, upstream)
            peers.append(peer)
            drv.on_send[srv] = peer.feed
        else:
            srv.tls = True
            srv.alpn = upstream
            srv.timestamp_tls_setup = 2.0

    drv = driver.Driver(c, top, hook_policy=hook)
    drv.on_open = on_open
    try:
        drv.start()
        pipe = Direct(drv, client)
        if shape == "swp":
            outer_offers = OUTER_OFFERS[outer_i % len(OUTER_OFFERS)]
            outer = TlsClient(outer_offers, "proxy.test")
            run_handshake(outer, pipe)
            osel = outer.alpn()
            judge(ctx, outer_offers, None, True, http2, osel, "outer:")
            ctx.cls("stack swp outer: %s" % ("none" if osel is None else osel.decode()))
            if osel not in (None, b"http/1.1", b"http/1.0"):
                return  # cannot speak HTTP/1 CONNECT on this connection; the violation (if any) is recorded above
            pipe = Tunnel(outer, pipe)
        if shape in ("regular", "swp"):
            pipe.send(b"CONNECT example.test:443 HTTP/1.1\r\nHost: example.test:443\r\n\r\n")
            reply = pipe.recv()
            if not reply.startswith(b"HTTP/1.1 200"):
                raise HarnessError("CONNECT was not accepted: %r crashed=%r" % (reply[:80], drv.crashed))
        inner = TlsClient(offers, "example.test")
        run_handshake(inner, pipe)
    except HarnessError:
        raise
    except ssl.SSLError as e:
        ctx.fail("e2e:handshake-failed:%s" % shape, "offers=%r upstream=%r http2=%r: %r" % (offers, upstream, http2, e))
        return
    if drv.crashed is not None:
        if not inner.done:
            ctx.crash(drv.crashed)
            return
        # the layer *above* TLS crashed after the handshake (e.g. "h3" negotiated on a TCP connection): not this
        # property's business, the negotiated protocol is still judged
        ctx.cls("ignored: crash above TLS after the handshake")
    sel = inner.alpn()
    if how == "peer" and upstream is not None:
        for p in peers:
            if p.error is not None:
                raise HarnessError("upstream peer handshake failed: %r" % (p.error,))
        if not known:
            raise HarnessError("upstream TLS was not established before the client handshake (eager strategy)")
        # the truth about upstream comes from the peer, not from what the layer stored in Server.alpn
        upstream = known[-1]
        ctx.cls("peer upstream: %s" % ("negotiated none" if upstream == b"" else "negotiated " + upstream.decode()))
    elif upstream is not None and not any(s.alpn == upstream for s in drv.servers):
        raise HarnessError("upstream protocol was not installed on the server connection")
    if (client.alpn or None) != sel:
        ctx.fail("e2e:client-alpn-attribute", "client negotiated %r but Client.alpn=%r" % (sel, client.alpn))
    # buckets of the peer mode get their own prefix: there the upstream offers are mitmproxy's own, so a failure has
    # another cause than in the "assigned" mode (where the upstream protocol may be one an addon chose)
    judge(ctx, offers, upstream, False, http2, sel, "peer:" if how == "peer" else "")
    if how == "peer" and not http2:
        for srv in drv.servers:
            if b"h2" in (srv.alpn_offers or ()):
                ctx.fail("peer:h2-offered-upstream-although-disabled",
                         "client offers %r, http2 disabled: mitmproxy offered %r to the upstream server"
                         % (offers, list(srv.alpn_offers)))
    if offers:
        ctx.nt(("e2e", tuple(offers), upstream, http2, http3, shape, outer_i if shape == "swp" else 0, how))
    ctx.cls("stack %s: %s" % (shape, "none" if sel is None else "upstream" if sel == upstream else sel.decode()))


def all_offer_lists():
    for k in range(0, 5):
        yield from itertools.permutations(PROTOS, k)


def run(ctx):
    n = 0
    for i, offers in enumerate(all_offer_lists()):
        if i % ctx.nshards != ctx.shard:
            continue
        for upstream in UPSTREAM:
            for override in OVERRIDE:
                for http2 in (True, False):
                    ctx.cur_case = [list(offers), upstream, override, http2]
                    ctx.ev()
                    check_callback(ctx.cur_case, ctx)
                    n += 1
    ctx.exhaustive = True
    ctx.extra["callback_combinations"] = n
    if ctx.shard == 0:
        ctx.sample([[b"http/1.1"], b"h2", None, True])
    hyp(ctx, strategy(ctx), check_case, ctx.n(QUICK_N, THOROUGH_N))
