"""C18 — ALPN negotiation with the client is consistent with offers and upstream.

Part 1 (exhaustive, sharded): every ordered client offer list of length <= 4 without repeats over
{h2, h3, http/1.1, http/1.0, http/0.9, two non-HTTP protocols} (1100 lists) x upstream protocol
{unknown(None), none negotiated(b""), each of the 7 protocols} x client_alpn override {None, http/1.1 = outer connection
of a secure web proxy} x http2 {on, off} = 39 600 combinations, evaluated on the real `alpn_select_callback` with a stub
connection that only provides `get_app_data()`.

Part 2 (Hypothesis, wiring): the same kind of combination is pushed through the real `TlsConfig.tls_start_client` for
different layer-stack shapes (regular proxy after CONNECT, outer and inner connection of a secure web proxy, reverse and
transparent mode) and a real in-memory TLS handshake between the returned pyOpenSSL connection and a Python `ssl`
client offering the list; the protocol the *client* ends up with is judged by the same clauses.

Clauses (from the statement):
 A  the selected protocol is one of the client's offers, or none;
 B  upstream protocol known (not None) and no secure-web-proxy override  =>  selected in {upstream, none};
 C  http2 disabled  =>  selected != h2;
 D  outer connection of a secure web proxy  =>  selected in {http/1.1, none}.
"""
import itertools
import os
import shutil
import ssl
import tempfile

from hypothesis import strategies as st

from runner import HarnessError, hyp

PID = "C18"
LEVEL = "exploration"
TECHNIQUE = "exhaustive enumeration of the finite selection domain + Hypothesis-sampled real in-memory TLS handshakes"
RULE = ("all 39 600 combinations of offer list (<=4 of 7 protocols, ordered) x upstream protocol (9) x override (2) x http2 (2) "
        "on alpn_select_callback, plus sampled real handshakes through tls_start_client for 5 layer-stack shapes; "
        "non-trivial = non-empty offer list; distinct by combination")
ASSUMPTIONS = [
    "ALPN protocol names are non-empty (TLS forbids empty names; OpenSSL never passes one to the callback)",
    "the only client_alpn override in the property's domain is the secure-web-proxy one (http/1.1); addon-chosen values "
    "of client.alpn are outside the quantifier",
    "clause B is not applied on the outer connection of a secure web proxy (there is no upstream for that connection)",
    "part 2 trusts CPython's ssl module as the TLS client",
]
LEVEL_TEXT = ("The selection function is evaluated on its complete finite domain (protocol classes, lists up to length 4); "
              "the wiring into real handshakes is sampled.")
LEVEL_NOTE = "exhaustive for alpn_select_callback over protocol classes; handshake part is sampled"
QUICK_N, THOROUGH_N = 1_600, 60_000  # handshakes (part 2); part 1 is always complete

PROTOS = [b"h2", b"h3", b"http/1.1", b"http/1.0", b"http/0.9", b"acme-tls/1", b"qux"]
UPSTREAM = [None, b""] + PROTOS
OVERRIDE = [None, b"http/1.1"]
SHAPES = ["regular-after-connect", "swp-outer", "swp-inner", "reverse", "transparent"]


class _NoOverlap:
    pass


def judge(ctx, offers, upstream, outer_swp, http2, selected, where):
    """selected: bytes or None (= nothing negotiated)"""
    cls = "upstream=%s" % ("unknown" if upstream is None else "none" if upstream == b"" else upstream.decode())
    if selected is not None and selected not in offers:
        ctx.fail("%snot-offered:%s" % (where, cls), "offers=%r upstream=%r http2=%r outer_swp=%r selected=%r"
                 % (offers, upstream, http2, outer_swp, selected))
    if upstream is not None and not outer_swp:
        if selected is not None and selected != upstream:
            kind = ("upstream-negotiated-none" if upstream == b"" else
                    "upstream-not-offered" if upstream not in offers else "upstream-offered")
            ctx.fail("%sother-than-upstream:%s" % (where, kind),
                     "offers=%r upstream=%r http2=%r selected=%r (expected %r or none)" % (offers, upstream, http2, selected, upstream))
    if not http2 and selected == b"h2":
        ctx.fail("%sh2-although-disabled:%s" % (where, "upstream-h2" if upstream == b"h2" else cls + (",swp" if outer_swp else "")),
                 "offers=%r upstream=%r http2=False outer_swp=%r selected=h2" % (offers, upstream, outer_swp))
    if outer_swp and selected not in (None, b"http/1.1"):
        ctx.fail("%souter-swp-not-http1:%s" % (where, cls), "offers=%r upstream=%r http2=%r selected=%r" % (offers, upstream, http2, selected))


class _StubConn:
    def __init__(self, app_data):
        self._a = app_data

    def get_app_data(self):
        return self._a


def check_callback(case, ctx):
    from mitmproxy.addons import tlsconfig
    from OpenSSL import SSL
    offers, upstream, override, http2 = case
    conn = _StubConn(tlsconfig.AppData(client_alpn=override, server_alpn=upstream, http2=http2))
    try:
        r = tlsconfig.alpn_select_callback(conn, list(offers))
    except Exception as e:
        ctx.crash(e)
        return
    if r is SSL.NO_OVERLAPPING_PROTOCOLS:
        sel = None
    elif isinstance(r, bytes):
        sel = r
    else:
        ctx.fail("cb:bad-return-type", repr(r))
        return
    judge(ctx, offers, upstream, override is not None, http2, sel, "")
    if offers:
        ctx.nt(("cb", tuple(offers), upstream, override, http2))
        ctx.cls("cb: selected %s" % ("none" if sel is None else "upstream" if sel == upstream else "override" if sel == override else "client-preference"))
    else:
        ctx.cls("cb: empty offer list")


# ------------------------------------------------------------------ part 2: real handshakes
_tls = None


def tls_addon(tctx_factory):
    """TlsConfig instance with an in-memory CA, once per process (the confdir only exists while the CA is created)."""
    global _tls
    if _tls is None:
        from mitmproxy.addons import tlsconfig
        ta = tlsconfig.TlsConfig()
        d = tempfile.mkdtemp(prefix="verif-c18-", dir="/dev/shm" if os.path.isdir("/dev/shm") else "/var/tmp")
        try:
            with tctx_factory(ta) as tctx:
                tctx.options.update(confdir=d)
                if ta.certstore is None:
                    raise HarnessError("TlsConfig did not create a certstore")
        finally:
            shutil.rmtree(d, ignore_errors=True)
        _tls = ta
    return _tls


def build_context(tctx, shape, upstream):
    from mitmproxy import connection
    from mitmproxy.connection import ConnectionState
    from mitmproxy.proxy import context, layers
    from mitmproxy.proxy.layers import modes
    from mitmproxy.proxy.mode_specs import ProxyMode

    mode = {"regular-after-connect": "regular", "swp-outer": "regular", "swp-inner": "regular",
            "reverse": "reverse:https://example.test:443", "transparent": "transparent"}[shape]
    client = connection.Client(peername=("192.0.2.7", 51000), sockname=("192.0.2.1", 8080), timestamp_start=1.0,
                               state=ConnectionState.OPEN, proxy_mode=ProxyMode.parse(mode))
    client.sni = "example.test"
    c = context.Context(client, tctx.options)
    if shape == "swp-outer":
        modes.HttpProxy(c)
        layers.ClientTLSLayer(c)
    else:
        c.server.address = ("example.test", 443)
        if shape == "regular-after-connect":
            modes.HttpProxy(c)
            layers.HttpLayer(c, layers.http.HTTPMode.regular)
            layers.ClientTLSLayer(c)
        elif shape == "swp-inner":
            modes.HttpProxy(c)
            layers.ClientTLSLayer(c)
            layers.HttpLayer(c, layers.http.HTTPMode.regular)
            layers.ClientTLSLayer(c)
        elif shape == "reverse":
            modes.ReverseProxy(c)
            layers.ClientTLSLayer(c)
        else:
            modes.TransparentProxy(c)
            layers.ClientTLSLayer(c)
        c.server.alpn = upstream
    return c


def handshake(ssl_conn, offers):
    """run a TLS handshake between the pyOpenSSL server object and a CPython ssl client; returns the client's ALPN"""
    from OpenSSL import SSL
    cctx = ssl.SSLContext(ssl.PROTOCOL_TLS_CLIENT)
    cctx.check_hostname = False
    cctx.verify_mode = ssl.CERT_NONE
    if offers:
        cctx.set_alpn_protocols([o.decode("ascii") for o in offers])
    inb, outb = ssl.MemoryBIO(), ssl.MemoryBIO()
    cobj = cctx.wrap_bio(inb, outb, server_hostname="example.test")
    cdone = sdone = False
    for _ in range(30):
        if not cdone:
            try:
                cobj.do_handshake()
                cdone = True
            except ssl.SSLWantReadError:
                pass
        data = outb.read()
        if data:
            ssl_conn.bio_write(data)
        if not sdone:
            try:
                ssl_conn.do_handshake()
                sdone = True
            except SSL.WantReadError:
                pass
        try:
            inb.write(ssl_conn.bio_read(65536))
        except SSL.WantReadError:
            pass
        if cdone and sdone:
            break
    else:
        raise HarnessError("handshake did not finish")
    sel = cobj.selected_alpn_protocol()
    srv = ssl_conn.get_alpn_proto_negotiated()
    return (sel.encode() if sel is not None else None), (srv or None)


def strategy(ctx):
    return st.tuples(st.lists(st.sampled_from(PROTOS), max_size=4, unique=True),
                     st.sampled_from(UPSTREAM), st.booleans(), st.sampled_from(SHAPES))


def check_case(case, ctx):
    if len(case) == 4 and not isinstance(case[3], str):
        return check_callback(case, ctx)
    from addons_ctx import shared_addon_context
    from mitmproxy import tls
    offers, upstream, http2, shape = case
    ta = tls_addon(shared_addon_context)
    with shared_addon_context(ta) as tctx:
        tctx.options.update(http2=http2)
        c = build_context(tctx, shape, upstream)
        outer = shape == "swp-outer"
        data = tls.TlsData(c.client, c)
        try:
            ta.tls_start_client(data)
        except Exception as e:
            ctx.crash(e)
            return
        if data.ssl_conn is None:
            ctx.fail("e2e:no-ssl-conn", shape)
            return
        try:
            sel, srv = handshake(data.ssl_conn, offers)
        except HarnessError:
            raise
        except Exception as e:
            ctx.fail("e2e:handshake-failed:%s" % type(e).__name__, "offers=%r upstream=%r http2=%r shape=%s: %r" % (offers, upstream, http2, shape, e))
            return
        if sel != srv:
            ctx.fail("e2e:client-server-disagree", "client=%r server=%r" % (sel, srv))
        judge(ctx, offers, None if outer else upstream, outer, http2, sel, "")
        if offers:
            ctx.nt(("e2e", tuple(offers), upstream, http2, shape))
        ctx.cls("e2e %s: %s" % (shape, "none" if sel is None else sel.decode()))


def all_offer_lists():
    for k in range(0, 5):
        yield from itertools.permutations(PROTOS, k)


def run(ctx):
    n = 0
    for i, offers in enumerate(all_offer_lists()):
        if i % ctx.nshards != ctx.shard:
            continue
        for upstream in UPSTREAM:
            for override in OVERRIDE:
                for http2 in (True, False):
                    ctx.cur_case = [list(offers), upstream, override, http2]
                    ctx.ev()
                    check_callback(ctx.cur_case, ctx)
                    n += 1
    ctx.exhaustive = True
    ctx.extra["callback_combinations"] = n
    if ctx.shard == 0:
        ctx.sample([[b"http/1.1"], b"h2", None, True])
    hyp(ctx, strategy(ctx), check_case, ctx.n(QUICK_N, THOROUGH_N))
