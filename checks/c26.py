"""C26 — forwarded DNS messages keep their meaning.

A message as a real peer produces it (lib/ref_dns encoder, *with* name compression in owner names and inside
CNAME/NS/PTR/MX/SOA/SRV/... RDATA, IDN names, TXT/HINFO/OPT/HTTPS/unknown-type RDATA with arbitrary octets, numeric
fields biased to values that look like compression pointers) is sent through the real DNSLayer (lib/driver.py) with
pass-through hooks, as a query (client -> upstream) or as a response (upstream -> client), over UDP or TCP.
Oracle: the independent decoder reads the bytes mitmproxy sent on the other side exactly as it reads the bytes the
sender sent: header, questions, and per record name/type/class/ttl and RDATA -- names inside RDATA of the RFC 3597 §4
types compared as names (compression expanded), everything else byte for byte.
"""
from __future__ import annotations

import struct

from hypothesis import strategies as st

import dns_gen as G
import ref_dns as R
from runner import HarnessError

PID = "C26"
LEVEL = "exploration"
TECHNIQUE = "Hypothesis-generated compressed DNS messages through the real DNSLayer; differential decode with an independent reference codec"
RULE = ("messages built by the reference encoder: 1-2 questions, 0-4 records per section over all name-bearing types "
        "(NS MD MF CNAME SOA MB MG MR PTR MINFO MX RP AFSDB RT SIG PX NXT SRV NAPTR), TXT/HINFO/A/AAAA/OPT/HTTPS/SVCB/"
        "RRSIG/NSEC and random unknown types; every name individually uncompressed / compressed to the longest / "
        "shortest earlier suffix; LDH, mixed-case, underscore, odd-ASCII, IDN and 63-octet labels, 255-octet names; "
        "u16/u32 fields and character-strings biased to pointer look-alikes (0xC00C..); direction query|response x "
        "transport udp|tcp; non-trivial = >=1 compressed name inside RDATA or non-name RDATA containing an octet >= 0xC0; "
        "distinct by (wire bytes, direction, transport)")
ASSUMPTIONS = [
    "lib/ref_dns.py (RFC 1035 §3.3/§4.1.4, RFC 3597 §4 type list) defines what a record means",
    "names are compared ASCII-case-insensitively (RFC 4343) for the meaning clause; an exact-case clause is reported separately",
    "hooks pass through (no addon modifies the flow); lib/driver.py interprets layer commands like proxy/server.py",
]
LEVEL_TEXT = ("generated-input search over compressed real-server-like messages; differential comparison of sender bytes and "
              "forwarded bytes under an independent decoder")
LEVEL_NOTE = "trusts lib/ref_dns.py, lib/driver.py and Hypothesis' search"
QUICK_N, THOROUGH_N = 60_000, 4_000_000
BUDGET_S = (240, 5400)

_OPTS = None


def _opts():
    global _OPTS
    if _OPTS is None:
        import driver
        _OPTS = driver.make_options()
    return _OPTS


def strategy(ctx):
    return st.tuples(G.message(allow_comp=True, max_q=2, odd=True), st.sampled_from(["query", "response"]),
                     st.sampled_from(["udp", "tcp"])).map(lambda t: {"d": t[0], "dir": t[1], "tr": t[2]})


def _frame(b: bytes, tr: str) -> bytes:
    return struct.pack("!H", len(b)) + b if tr == "tcp" else b


def forward(wire: bytes, direction: str, tr: str, query_wire: bytes | None = None):
    """-> (list of messages mitmproxy sent to the other side, driver)"""
    import driver
    from mitmproxy.proxy.layers.dns import DNSLayer
    c = driver.make_context(_opts(), transport=tr)
    c.server.address = ("192.0.2.53", 53)
    d = driver.Driver(c, DNSLayer(c))
    d.start()
    if direction == "query":
        d.recv(c.client, _frame(wire, tr))
        out = d.out(c.server)
    else:
        d.recv(c.client, _frame(query_wire, tr))
        if d.crashed is None:
            if not d.out(c.server):
                # the tree under test refused a plain, uncompressed, well-formed query: a finding, not a harness fault
                return None, d
            d.recv(c.server, _frame(wire, tr))
        out = d.out(c.client)
    if tr == "tcp":
        msgs, rest = R.tcp_frames(out)
        if rest:
            msgs.append(b"<partial frame>" + rest)
    else:
        chunks = d.sent_chunks[c.server if direction == "query" else c.client]
        msgs = [bytes(x) for x in chunks]
    return msgs, d


def check_case(case, ctx):
    import driver
    d, direction, tr = case["d"], case["dir"], case["tr"]
    d = dict(d)
    d["qr"] = 0 if direction == "query" else 1
    wd = G.to_wire_desc(d)
    wire = R.encode(wd)
    if len(wire) > 65535:
        ctx.cls("skipped:too-long")
        return
    try:
        sent = R.decode(wire)
    except R.DecodeError as e:
        raise HarnessError("reference decoder rejects reference encoder output: %s" % e)
    if sent.key() != R.desc_key(wd):
        raise HarnessError("reference codec self-test failed: %r vs %r" % (sent.key(), R.desc_key(wd)))
    rrs = [r for s in sent.sections for r in s]
    hazards = [R.rr_hazard(r) for r in rrs]
    worst = ("ptrlike" if "ptrlike" in hazards else "multicomp" if "multicomp" in hazards else
             "comp" if "comp" in hazards else "plain")
    idn = any(l.startswith(b"xn--") for n in [q.name for q in sent.questions] + [r.name for r in rrs] for l in n)
    if worst != "plain":
        ctx.nt((wire, direction, tr), "%s/%s:%s%s" % (direction, tr, worst, "+idn" if idn else ""))
    else:
        ctx.cls("%s/%s:plain" % (direction, tr))
    for r, h in zip(rrs, hazards):
        if h != "plain":
            ctx.cls("rr:%s-%s" % (R.type_name(r.type) if r.type in R.TYPE_NAMES else "other", h))

    query_wire = None
    if direction == "response":
        # the query this response answers: same id and question section, uncompressed
        q = {"id": d["id"], "qr": 0, "opcode": d["opcode"], "aa": 0, "tc": 0, "rd": d["rd"], "ra": 0, "z": 0, "rcode": 0,
             "q": [[n, 0, t, c] for n, _m, t, c in wd["q"]], "an": [], "ns": [], "ar": []}
        query_wire = R.encode(q)
    msgs, drv = forward(wire, direction, tr, query_wire)
    where = "%s" % worst
    if msgs is None:
        logs = "; ".join(m for _l, m in drv.logs)[:300]
        ctx.fail("well-formed-message-not-forwarded:plain-query",
                 "the uncompressed query %s (same id/question as the response under test) did not reach the upstream "
                 "server (log: %s)" % (query_wire.hex()[:400], logs))
        return
    if drv.crashed is not None:
        ctx.fail(driver.crash_bucket(drv.crashed) + ":" + where, "layer raised %r while forwarding %s" % (drv.crashed, wire.hex()[:400]))
        return
    if len(msgs) != 1:
        logs = "; ".join(m for _l, m in drv.logs)[:300]
        ctx.fail("well-formed-message-not-forwarded:%s" % where if not msgs else "forwarded-%d-times" % len(msgs),
                 "%d messages reached the other side for %s (log: %s)" % (len(msgs), wire.hex()[:400], logs))
        return
    out = msgs[0]
    try:
        got = R.decode(out)
    except R.DecodeError as e:
        ctx.fail("forwarded-undecodable:" + where, "reference decoder rejects forwarded bytes %s: %s" % (out.hex()[:400], e))
        return
    compare(sent, got, ctx, wire, out)


def compare(sent, got, ctx, wire, out):
    if got.header() != sent.header():
        ctx.fail("header-changed", "%r -> %r" % (sent.header(), got.header()))
    if got.qkey() != sent.qkey():
        ctx.fail("question-changed", "%r -> %r" % (sent.questions, got.questions))
    elif [q.name for q in got.questions] != [q.name for q in sent.questions]:
        ctx.fail("question-case-changed", "%r -> %r" % (sent.questions, got.questions))
    for si, (a, b) in enumerate(zip(sent.sections, got.sections)):
        if len(a) != len(b):
            ctx.fail("record-count-changed", "section %d: %d -> %d records" % (si, len(a), len(b)))
            continue
        for x, y in zip(a, b):
            tn = R.type_name(x.type) if x.type in R.TYPE_NAMES else "other"
            hz = R.rr_hazard(x)
            if x.head() != y.head():
                ctx.fail("record-header-changed", "%r -> %r" % (x, y))
            elif x.name != y.name:
                ctx.fail("owner-case-changed", "%r -> %r" % (x, y))
            if x.sem() != y.sem() or x.parsed != y.parsed:
                ctx.fail("rdata-changed-%s:%s" % (hz, tn),
                         "sent %s RDATA %s (%s), forwarded as %s (%s)" % (tn, x.rdata.hex()[:200], R.show_fields(x.fields)[:200],
                                                                         y.rdata.hex()[:200], R.show_fields(y.fields)[:200]))
            elif x.type in R.LAYOUT and [v for k, v in x.fields if k == "n"] != [v for k, v in y.fields if k == "n"]:
                ctx.fail("rdata-name-case-changed:%s" % tn, "%r -> %r" % (x, y))
