"""Helpers shared by the stream-protocol checks (C11, C28, C29, C30): a Driver subclass that records the
connection state *before* every close command, cached options, and small utilities.

Nothing here knows about the expected behaviour of the layers under test; the oracles live in the checks.
"""
from __future__ import annotations

from mitmproxy.connection import ConnectionState
from mitmproxy.proxy import commands

import driver as _driver
from driver import HOLD, Driver, make_context, make_options  # noqa: F401  (re-exported)

_OPTS = {}


def cached_options(**kw):
    """Options objects are expensive to build (~ms); layers only read them, so share one per option set."""
    key = tuple(sorted(kw.items()))
    o = _OPTS.get(key)
    if o is None:
        o = _OPTS[key] = make_options(**kw)
    return o


class StreamDriver(Driver):
    """Driver that additionally records ("close-eff", conn, half, state_before) for every close command, so an
    oracle can tell which close commands actually changed the socket state, and that understands the QUIC
    connection commands (recorded, not interpreted)."""

    def __init__(self, *a, **kw):
        super().__init__(*a, **kw)
        self.other_commands = []

    def _command(self, cmd):
        if isinstance(cmd, commands.CloseConnection):
            self.trace.append(("close-eff", cmd.connection, bool(getattr(cmd, "half_close", False)),
                               cmd.connection.state))
        try:
            super()._command(cmd)
        except RuntimeError as e:
            if "unexpected command" not in str(e):
                raise
            self.other_commands.append(cmd)
            self.trace.append(("cmd", cmd))

    def release_all(self, before_release=None, limit=200):
        """release held commands (oldest first) until none is left"""
        n = 0
        while self.held and self.crashed is None:
            n += 1
            if n > limit:
                from runner import HarnessError
                raise HarnessError("release_all does not terminate")
            cmd = self.held[0]
            reply = before_release(cmd) if before_release else None
            self.release(cmd, reply)


def open_server(conn, address=("server.test", 443), transport=None):
    """put a Server into the state server.py leaves it in after a successful connect"""
    conn.address = address
    if transport:
        conn.transport_protocol = transport
    conn.state = ConnectionState.OPEN
    conn.peername = address
    conn.sockname = ("192.0.2.1", 40001)
    conn.timestamp_start = 1605699330
    conn.timestamp_tcp_setup = 1605699331
    return conn


crash_bucket = _driver.crash_bucket


def _first(t):
    return t[0]


def weighted(*pairs):
    """one_of with weights.  Hypothesis flattens nested one_of()s and drops repeated strategy objects, so
    `one_of(a, a, b)` is *not* 2:1; here every alternative is wrapped into a fresh single-branch strategy."""
    from hypothesis import strategies as st
    alts = []
    for w, s in pairs:
        for _ in range(int(w)):
            alts.append(st.tuples(s).map(_first))
    return st.one_of(alts)
