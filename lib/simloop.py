"""E4 — deterministic asyncio simulator (DESIGN.md section 2.4).

* ``SimLoop``: an ``asyncio.BaseEventLoop`` whose ``time()`` is a *virtual clock* and which never blocks.
  When callbacks are ready the clock advances by a tiny ``tick`` (computation takes time; a busy ``sleep(0)``
  loop therefore makes progress).  When nothing is ready the clock jumps to the earliest timer **plus a
  generated non-negative overshoot** (real loops wake late, never early).  When nothing is ready and no timer
  exists the loop raises ``SimDeadlock``; after ``max_iter`` iterations it raises ``SimLivelock``.
  asyncio's FIFO order of ready callbacks is untouched.  No file descriptors, no threads, no real time.
  ``eager=True`` gives tasks ``asyncio.eager_task_factory`` semantics (mitmproxy's ``Master.run`` installs it; code
  driven outside ``Master.run``, e.g. by the repository's tests, runs with the default lazy task start).
* ``FakeReader`` / ``FakeWriter``: stream objects with the interface mitmproxy's ``ConnectionHandler`` uses
  (``read``, ``write``, ``drain``, ``write_eof``, ``close``, ``is_closing``, ``get_extra_info``).  Data, EOF
  and errors arrive at virtual instants scheduled from a JSON-able script; ``drain``/``write_eof``/``close``
  follow scripts too.
* ``Net``: the fake network.  ``Net.open_connection`` replaces ``asyncio.open_connection``: the n-th call
  sleeps a generated virtual delay and then returns fake streams, raises ``OSError`` or never completes.
  It keeps the open-socket accounting per address and the registry of *await points* used for fault
  enumeration (``Net.point``): a check runs a plan once fault-free, learns the list of await points, and
  re-runs it with one fault ``[index, kind]`` injected at each point.
* ``patched(loop, net)``: context manager pointing ``mitmproxy.proxy.server.time`` at the virtual clock and
  ``mitmproxy.proxy.server.asyncio.open_connection`` at the fake network (restored afterwards).
* ``run(main_factory, ...)``: create a loop, run ``main`` to completion (or deadlock/livelock), report what is
  left over, cancel leftovers, close the loop.  No task outlives the call.

All times are dyadic rationals (multiples of 2**-30 below 2**20) so float arithmetic on them is exact.
"""
from __future__ import annotations

import asyncio
import contextlib
import types

U = 2.0 ** -10  # time unit used by plans: ~1 ms, exact in binary
TICK = 2.0 ** -30  # ~1 ns
T0 = 4096.0  # virtual epoch


class SimDeadlock(Exception):
    """nothing ready, no timer pending, main coroutine not finished"""


class SimLivelock(Exception):
    """iteration bound exceeded"""


class _Selector:
    __slots__ = ("loop",)

    def __init__(self, loop):
        self.loop = loop

    def select(self, timeout=None):
        return self.loop._sim_select(timeout)

    def close(self):
        pass


class SimLoop(asyncio.BaseEventLoop):
    def __init__(self, overshoots=(), tick=TICK, start=T0, max_iter=200_000, eager=False):
        super().__init__()
        self.eager = bool(eager)  # asyncio.eager_task_factory semantics (what mitmproxy's Master.run installs)
        self._vt = float(start)
        self._tick = float(tick)
        self._overshoots = [float(x) for x in overshoots]
        self._ov_i = 0
        self.max_overshoot = max(self._overshoots, default=0.0)
        self._selector = _Selector(self)
        self._clock_resolution = TICK / 2
        self.iterations = 0
        self.jumps = 0
        self.max_iter = max_iter
        self.tasks = []  # every task ever created on this loop (strong refs for the duration of the case)
        self.unhandled = []  # contexts passed to the exception handler
        self.set_task_factory(self._factory)
        self.set_exception_handler(lambda loop, context: loop.unhandled.append(context))

    # -- virtual clock
    def time(self):
        return self._vt

    def _sim_select(self, timeout):
        self.iterations += 1
        if self.iterations > self.max_iter:
            raise SimLivelock()
        if timeout is None:
            raise SimDeadlock()
        if timeout <= 0:
            self._vt += self._tick
        else:
            if self._ov_i < len(self._overshoots):
                ov = self._overshoots[self._ov_i]
                self._ov_i += 1
            else:
                ov = 0.0
            self.jumps += 1
            self._vt += timeout + ov
        return ()

    def _process_events(self, event_list):
        pass

    def _write_to_self(self):
        pass

    # -- no threads, no real I/O
    def run_in_executor(self, executor, func, *args):
        raise RuntimeError("SimLoop: executors are not available (would be nondeterministic)")

    async def shutdown_default_executor(self, timeout=None):
        return None

    @staticmethod
    def _factory(loop, coro, **kw):
        if loop.eager:
            t = asyncio.Task(coro, loop=loop, eager_start=True, **kw)
        else:
            t = asyncio.Task(coro, loop=loop, **kw)
        loop.tasks.append(t)
        return t

    def pending_tasks(self):
        return [t for t in self.tasks if not t.done()]


class VTime(types.SimpleNamespace):
    """stand-in for the ``time`` module inside mitmproxy.proxy.server"""

    def __init__(self, loop):
        import time as _time
        super().__init__(time=loop.time, monotonic=loop.time, perf_counter=loop.time, sleep=None,
                         struct_time=_time.struct_time, strftime=_time.strftime, localtime=_time.localtime,
                         gmtime=_time.gmtime)


class _RsShim:
    """``mitmproxy_rs`` as seen by mitmproxy.proxy.server: everything real except udp.open_udp_connection"""

    def __init__(self, real, open_udp_connection):
        self._real = real
        self.udp = types.SimpleNamespace(open_udp_connection=open_udp_connection)

    def __getattr__(self, name):
        return getattr(self._real, name)


class _AsyncioShim:
    """``asyncio`` as seen by mitmproxy.proxy.server: everything real except open_connection"""

    def __init__(self, open_connection):
        self.open_connection = open_connection

    def __getattr__(self, name):
        return getattr(asyncio, name)


@contextlib.contextmanager
def patched(loop, net=None, modules=("mitmproxy.proxy.server",)):
    import importlib
    saved = []
    try:
        for name in modules:
            m = importlib.import_module(name)
            saved.append((m, getattr(m, "time", None), getattr(m, "asyncio", None), getattr(m, "mitmproxy_rs", None)))
            if hasattr(m, "time"):
                m.time = VTime(loop)
            if net is not None and hasattr(m, "asyncio"):
                m.asyncio = _AsyncioShim(net.open_connection)
            if net is not None and hasattr(m, "mitmproxy_rs"):
                m.mitmproxy_rs = _RsShim(m.mitmproxy_rs, net.open_udp_connection)
        yield
    finally:
        for m, t, a, rs in saved:
            if t is not None:
                m.time = t
            if a is not None:
                m.asyncio = a
            if rs is not None:
                m.mitmproxy_rs = rs


# ---------------------------------------------------------------------------------------------- fake streams
class FakeReader:
    """Buffer + waiter, like asyncio.StreamReader, but fed from virtual-time scripts."""

    def __init__(self, net, label):
        self.net = net
        self.label = label
        self.buf = bytearray()
        self.eof = False
        self.exc = None
        self.waiter = None
        self.reads = 0

    # feeding side
    def _wake(self):
        w = self.waiter
        if w is not None and not w.done():
            w.set_result(None)

    def feed_data(self, data):
        if self.eof or self.exc is not None or not data:
            return
        self.buf += data
        self._wake()

    def feed_eof(self):
        self.eof = True
        self._wake()

    def set_exception(self, exc):
        if self.exc is None and not self.eof:
            self.exc = exc
        self._wake()

    def run_script(self, script):
        """script: list of [delay_units, item]; item = bytes | "eof" | "err".  Arrival instants are cumulative
        from now.  After the script nothing more arrives (the peer stays silent)."""
        loop = self.net.loop
        t = 0.0
        for delay, item in script:
            t += delay * U
            if item == "eof":
                loop.call_later(t, self.feed_eof)
            elif item == "err":
                loop.call_later(t, self.set_exception, ConnectionResetError(104, "sim: connection reset by peer"))
            else:
                loop.call_later(t, self.feed_data, bytes(item))

    # reading side (what mitmproxy calls)
    async def read(self, n=-1):
        self.reads += 1
        kind = self.net.point("read:" + self.label)
        if kind == "err":
            raise ConnectionResetError(104, "sim: injected read error")
        if kind == "hang":
            await self.net.loop.create_future()
        if not self.buf and not self.eof and self.exc is None:
            self.waiter = self.net.loop.create_future()
            try:
                await self.waiter
            finally:
                self.waiter = None
        self.net.after_point(kind)
        if self.buf:
            if n is None or n < 0:
                n = len(self.buf)
            data = bytes(self.buf[:n])
            del self.buf[:n]
            return data
        if self.exc is not None:
            raise self.exc
        return b""

    def at_eof(self):
        return self.eof and not self.buf


class FakeWriter:
    def __init__(self, net, label, address, reader, peername, sockname, drains=(), eof_err=False, close_err=False):
        self.net = net
        self.label = label
        self.address = address
        self.reader = reader
        self.peername = peername
        self.sockname = sockname
        self.drains = list(drains)  # per drain() call: [delay_units, "ok"|"err"|"hang"]
        self.drain_i = 0
        self.eof_err = eof_err
        self.close_err = close_err
        self.written = []  # (time, bytes)
        self.on_write = None
        self.eof_written = False
        self.closed = False
        self.close_calls = 0
        self.opened_at = net.loop.time()
        self.closed_at = None
        self.extra = {}

    def write(self, data):
        if self.closed:
            return
        if self.eof_written:
            raise RuntimeError("Cannot call write() after write_eof()")
        self.written.append((self.net.loop.time(), bytes(data)))
        if self.on_write is not None:
            self.on_write(bytes(data))

    def can_write_eof(self):
        return True

    def write_eof(self):
        if self.eof_err:
            raise OSError(107, "sim: transport endpoint is not connected")
        self.eof_written = True
        self.net.log.append((self.net.loop.time(), "write_eof", self.label))

    def is_closing(self):
        return self.closed

    def close(self):
        self.close_calls += 1
        if not self.closed:
            self.closed = True
            self.closed_at = self.net.loop.time()
            self.net._socket_closed(self)
            # like transport.close(): connection_lost -> reader gets EOF on the next iteration
            self.net.loop.call_soon(self.reader.feed_eof)
        if self.close_err:
            raise OSError(9, "sim: bad file descriptor")

    async def wait_closed(self):
        return None

    def get_extra_info(self, name, default=None):
        if name == "peername":
            return self.peername
        if name == "sockname":
            return self.sockname
        return self.extra.get(name, default)

    async def drain(self):
        kind = self.net.point("drain:" + self.label)
        if self.drain_i < len(self.drains):
            delay, outcome = self.drains[self.drain_i]
        else:
            delay, outcome = 0, "ok"
        self.drain_i += 1
        if kind == "err":
            outcome = "err"
        elif kind == "hang":
            outcome = "hang"
        if outcome == "hang":
            await self.net.loop.create_future()
        if delay:
            await asyncio.sleep(delay * U)
        self.net.after_point(kind)
        if outcome == "err" or self.closed:
            raise ConnectionResetError(104, "sim: connection lost")


class FakeDuplex:
    """one object that is reader and writer, like mitmproxy_rs.Stream (UDP)"""

    def __init__(self, reader, writer):
        self.reader, self.writer = reader, writer
        self.read = reader.read
        for n in ("write", "drain", "write_eof", "close", "is_closing", "wait_closed", "get_extra_info"):
            setattr(self, n, getattr(writer, n))

    @property
    def closed(self):
        return self.writer.closed


# ---------------------------------------------------------------------------------------------- fake network
class Net:
    """Fake network + await-point registry.

    ``connects``: per open_connection call (in call order) a dict
        {"delay": units, "outcome": "ok"|"err"|"hang", "reads": script, "drains": [...], "eof_err": bool,
         "close_err": bool}; calls beyond the list succeed immediately with a silent peer.
    ``fault``: None or [point_index, kind] with kind in
        "err"   the I/O operation at that await point raises OSError,
        "hang"  it never completes,
        "ceof"  the client's read side reaches EOF at the instant the await point is reached,
        "ceof_after"  ... at the instant the awaited operation completes,
        "cerr" / "cerr_after"  same with a connection reset instead of EOF.
    """

    def __init__(self, loop, connects=(), fault=None):
        self.loop = loop
        self.connects = list(connects)
        self.fault = tuple(fault) if fault else None
        self.points = []  # labels of await points in the order they were reached
        self.calls = []  # open_connection calls: dicts
        self.writers = []  # every FakeWriter handed out by open_connection
        self.open_now = {}  # address -> number of established, not yet closed sockets
        self.max_open = {}  # address -> high-water mark
        self.log = []  # (time, what, label)
        self.client_reader = None
        self.client_writer = None
        self.on_connect = None  # callable(call_index, host, port, reader, writer) for reactive peers
        self.on_call = None  # callable(call) at the start of every open_connection call

    # -- await points
    def point(self, label):
        idx = len(self.points)
        self.points.append(label)
        if self.fault is not None and self.fault[0] == idx:
            kind = self.fault[1]
            if kind == "ceof":
                self.kill_client()
            elif kind == "cerr":
                self.kill_client(err=True)
            return kind
        return None

    def after_point(self, kind):
        if kind == "ceof_after":
            self.kill_client()
        elif kind == "cerr_after":
            self.kill_client(err=True)

    def kill_client(self, err=False):
        r = self.client_reader
        if r is not None:
            self.log.append((self.loop.time(), "client-killed", "err" if err else "eof"))
            if err:
                r.set_exception(ConnectionResetError(104, "sim: client reset"))
            else:
                r.feed_eof()

    # -- client side
    def make_client(self, reads=(), drains=(), eof_err=False, peername=("192.0.2.10", 50123),
                    sockname=("127.0.0.1", 8080), udp=False):
        r = FakeReader(self, "client")
        w = FakeWriter(self, "client", None, r, peername, sockname, drains=drains, eof_err=eof_err)
        r.run_script(reads)
        self.client_reader, self.client_writer = r, w
        if udp:
            w.extra["transport_protocol"] = "udp"
            d = FakeDuplex(r, w)
            return d, d
        return r, w

    async def open_udp_connection(self, host=None, port=None, **kw):
        r, w = await self.open_connection(host, port, **kw)
        w.extra["transport_protocol"] = "udp"
        return FakeDuplex(r, w)

    # -- server side
    def _socket_closed(self, w):
        if w.address is not None:
            self.open_now[w.address] -= 1
            self.log.append((self.loop.time(), "closed", w.label))

    async def open_connection(self, host=None, port=None, **kw):
        i = len(self.calls)
        spec = self.connects[i] if i < len(self.connects) else {}
        addr = (host, port)
        call = {"i": i, "address": addr, "t_call": self.loop.time(), "t_done": None, "result": None, "writer": None}
        self.calls.append(call)
        if self.on_call is not None:
            self.on_call(call)
        label = "s%d" % i
        kind = self.point("connect:" + label)
        outcome = spec.get("outcome", "ok")
        if kind == "err":
            outcome = "err"
        elif kind == "hang":
            outcome = "hang"
        try:
            # the real asyncio.open_connection never completes without suspending at least once
            # (connection_made is delivered through call_soon), so neither does the fake
            await asyncio.sleep(0)
            if outcome == "hang":
                await self.loop.create_future()
            delay = spec.get("delay", 0)
            if delay:
                await asyncio.sleep(delay * U)
        except asyncio.CancelledError:
            call["t_done"] = self.loop.time()
            call["result"] = "cancelled"
            raise
        self.after_point(kind)
        call["t_done"] = self.loop.time()
        if outcome == "err":
            call["result"] = "err"
            raise ConnectionRefusedError(111, "sim: connect call failed (%r, %r)" % (host, port))
        call["result"] = "ok"
        r = FakeReader(self, label)
        w = FakeWriter(self, label, addr, r, (host, port), ("192.0.2.1", 40000 + i), drains=spec.get("drains", ()),
                       eof_err=spec.get("eof_err", False), close_err=spec.get("close_err", False))
        call["writer"] = w
        self.writers.append(w)
        self.open_now[addr] = self.open_now.get(addr, 0) + 1
        self.max_open[addr] = max(self.max_open.get(addr, 0), self.open_now[addr])
        self.log.append((self.loop.time(), "opened", label))
        r.run_script(spec.get("reads", ()))
        if self.on_connect is not None:
            self.on_connect(i, host, port, r, w)
        return r, w


# ---------------------------------------------------------------------------------------------- running a case
class Outcome:
    """what ``run`` observed"""
    __slots__ = ("result", "error", "ended", "leftover", "loop", "stuck")

    def __init__(self):
        self.result = None
        self.error = None  # exception raised by main (not Sim*)
        self.ended = "ok"  # ok | deadlock | livelock
        self.leftover = []  # names/coros of tasks still pending after main returned and the loop was drained
        self.stuck = []  # tasks that did not finish even after cancellation (harness must know)
        self.loop = None


def _drain(loop, rounds=50):
    """let already-scheduled callbacks and zero-delay follow-ups run without advancing to future timers"""
    async def _yield():
        for _ in range(rounds):
            await asyncio.sleep(0)
    try:
        loop.run_until_complete(_yield())
    except (SimDeadlock, SimLivelock):
        pass


def run(main_factory, overshoots=(), tick=TICK, max_iter=200_000, setup=None, eager=False):
    """Run ``await main_factory(loop)`` on a fresh SimLoop.  ``setup(loop)`` may return a context manager that is
    entered for the duration (e.g. ``patched``).  Always closes the loop; cancels whatever is left."""
    loop = SimLoop(overshoots=overshoots, tick=tick, max_iter=max_iter, eager=eager)
    out = Outcome()
    out.loop = loop
    cm = setup(loop) if setup is not None else contextlib.nullcontext()
    try:
        with cm:
            main = loop.create_task(main_factory(loop))
            try:
                loop.run_until_complete(main)
            except SimDeadlock:
                out.ended = "deadlock"
            except SimLivelock:
                out.ended = "livelock"
            except BaseException as e:  # raised by main itself
                if main.done() and not main.cancelled() and main.exception() is e:
                    out.error = e
                else:
                    raise
            else:
                out.result = main.result()
            if out.ended == "ok":
                _drain(loop)
            out.leftover = [t for t in loop.pending_tasks()]
            # clean up: nothing may outlive the case
            for _ in range(20):
                pend = loop.pending_tasks()
                if not pend:
                    break
                for t in pend:
                    t.cancel()
                loop.max_iter = loop.iterations + 20_000
                try:
                    loop.run_until_complete(asyncio.wait(pend, timeout=0))
                except (SimDeadlock, SimLivelock):
                    pass
            out.stuck = loop.pending_tasks()
            for t in loop.tasks:  # retrieve exceptions so nothing is logged at GC time
                if t.done() and not t.cancelled():
                    t.exception()
    finally:
        try:
            loop.close()
        except Exception:
            pass
    return out
