"""Reference matcher for cookies, written from RFC 6265 (sections 5.1.3, 5.1.4, 5.2.3, 5.2.4).
Independent of mitmproxy and of http.cookiejar."""
from __future__ import annotations

import ipaddress


def is_ip(host: str) -> bool:
    h = host.strip("[]")
    try:
        ipaddress.ip_address(h)
        return True
    except ValueError:
        return False


def canon_domain_attr(value: str) -> str:
    """5.2.3: drop one leading '.', lower-case."""
    if value.startswith("."):
        value = value[1:]
    return value.lower()


def domain_match(host: str, domain: str) -> bool:
    """5.1.3: `host` domain-matches `domain` (both canonicalised to lower case, domain without leading dot)."""
    host = host.lower()
    domain = domain.lower()
    if not domain:
        return False
    if host == domain:
        return True
    return host.endswith("." + domain) and not is_ip(host)


def uri_path(target: str) -> str:
    """path part of an origin-form request target"""
    return target.split("?", 1)[0]


def path_match(request_path: str, cookie_path: str) -> bool:
    """5.1.4"""
    if request_path == cookie_path:
        return True
    if request_path.startswith(cookie_path):
        if cookie_path.endswith("/"):
            return True
        if request_path[len(cookie_path)] == "/":
            return True
    return False


def default_path(request_path: str) -> str:
    """5.1.4 default-path of a request uri path"""
    if not request_path.startswith("/"):
        return "/"
    if request_path.count("/") == 1:
        return "/"
    return request_path[: request_path.rfind("/")]
