"""Run an HTTP/1 case (client stream + scripted server responses + addon edits) through the real HttpLayer.

case = {"mode": "regular"|"transparent", "reqs": [request descriptors], "resps": [response descriptors],
        "edits": [[flow ordinal, "request"|"response", kind, arg]],
        "seg": None | {"client": [cut points], "server": [[cut points] per response], "delay": [ints]}   (C02)
        "policy": [[flow ordinal, hook name, action, arg]]   action in pass|kill|resp|stream|hold (arg = deliveries to hold)
        "fault": None | {"kind": client-close|client-close-full|server-close|server-close-full, "at": delivery index}
        "connect_fail": [indices of OpenConnection commands that fail]}                                  (C03)
Returns an Outcome with per-flow snapshots (before/after addon edits), bytes written to every connection, hook order.
"""
from __future__ import annotations

import http1gen
import ref_http1
from driver import HOLD, Driver, make_context, make_options
from mitmproxy.connection import ConnectionState
from mitmproxy.proxy.layers import http as http_layer


def snap_req(r):
    return {"method": r.data.method, "path": r.data.path, "authority": r.data.authority, "scheme": r.data.scheme,
            "version": r.data.http_version, "fields": [list(f) for f in r.headers.fields], "content": r.raw_content,
            "host": r.host, "port": r.port}


def snap_resp(r):
    return {"status": r.status_code, "reason": r.data.reason, "version": r.data.http_version,
            "fields": [list(f) for f in r.headers.fields], "content": r.raw_content}


class FlowRec:
    def __init__(self, flow, ordinal):
        self.flow = flow
        self.ordinal = ordinal
        self.hooks = []
        self.req_head = None  # at requestheaders
        self.req_pre = None  # at request, before edits
        self.req_post = None  # after edits
        self.resp_head = None
        self.resp_pre = None
        self.resp_post = None
        self.error = None
        self.server_conn_at_request = None


class Outcome:
    pass


def cut(data: bytes, cuts):
    pts = sorted(set(c for c in cuts if 0 < c < len(data)))
    pts = [0] + pts + [len(data)]
    return [data[a:b] for a, b in zip(pts, pts[1:])]


def run_http1(case, opts_kw=None, hook_extra=None, before_close=None) -> Outcome:
    kw = dict(case.get("opts") or {})
    kw.update(opts_kw or {})
    opts = make_options(**kw)
    mode = case.get("mode", "regular")
    ctx = make_context(opts, mode="regular" if mode == "regular" else "transparent")
    if mode == "transparent":
        ctx.server.address = ("a.example", 80)
        top = http_layer.HttpLayer(ctx, http_layer.HTTPMode.transparent)
    else:
        top = http_layer.HttpLayer(ctx, http_layer.HTTPMode.regular)
    recs = {}
    order = []
    edits = case.get("edits") or []

    def rec_for(flow):
        r = recs.get(id(flow))
        if r is None:
            r = recs[id(flow)] = FlowRec(flow, len(order))
            order.append(r)
        return r

    def policy(hook):
        name = hook.name
        flow = getattr(hook, "flow", None)
        if flow is None or not hasattr(flow, "request"):
            return None
        r = rec_for(flow)
        r.hooks.append(name)
        if name == "requestheaders":
            r.req_head = snap_req(flow.request)
        elif name == "request":
            r.req_pre = snap_req(flow.request)
            for o, side, kind, arg in edits:
                if o == r.ordinal and side == "request":
                    http1gen.apply_edit(flow.request, kind, arg)
            r.req_post = snap_req(flow.request)
            r.server_conn_at_request = flow.server_conn
        elif name == "responseheaders":
            r.resp_head = snap_resp(flow.response)
        elif name == "response":
            r.resp_pre = snap_resp(flow.response)
            bodyless = flow.request.method.upper() == "HEAD" or flow.response.status_code in (204, 304) or flow.response.status_code < 200
            for o, side, kind, arg in edits:
                if o == r.ordinal and side == "response":
                    if bodyless and kind.startswith("body"):
                        continue  # an addon putting a body on a bodiless response contradicts itself (scoped out)
                    http1gen.apply_edit(flow.response, kind, arg)
            r.resp_post = snap_resp(flow.response)
        elif name == "error":
            r.error = flow.error.msg if flow.error else "?"
        res = None
        for o, hname, action, arg in policies:
            if o != r.ordinal or hname != name:
                continue
            if action == "kill":
                if flow.killable:
                    flow.kill()
            elif action == "resp" and name in ("requestheaders", "request") and not flow.request.stream:
                from mitmproxy import http as mhttp
                flow.response = mhttp.Response.make(203, b"from-addon", {"X-Addon": "1"})
            elif action == "stream":
                if name == "requestheaders" and not flow.response:
                    flow.request.stream = True
                elif name == "responseheaders":
                    flow.response.stream = True
            elif action == "hold":
                held.append([hook, int(arg)])
                res = HOLD
        if hook_extra:
            return hook_extra(hook, r)
        return res

    policies = case.get("policy") or []
    held = []  # [hook command, deliveries left]
    fault = case.get("fault") or None
    connect_fail = set(case.get("connect_fail") or [])
    nopen = [0]

    def conn_policy(cmd):
        i = nopen[0]
        nopen[0] += 1
        return "connection refused (injected)" if i in connect_fail else None

    d = Driver(ctx, top, hook_policy=policy, conn_policy=conn_policy)
    deliveries = [0]
    _recv = d.recv

    def recv(conn, data):
        k = deliveries[0]
        deliveries[0] += 1
        if fault and fault["at"] == k:
            kind = fault["kind"]
            if kind.startswith("client"):
                d.close(ctx.client, full=kind.endswith("full"))
            else:
                live = [c for c in d.servers if c.state & ConnectionState.CAN_READ]
                if live:
                    d.close(live[-1], full=kind.endswith("full"))
        if conn.state & ConnectionState.CAN_READ and d.crashed is None:
            _recv(conn, data)
        for h in list(held):
            h[1] -= 1
            if h[1] <= 0 and h in held:
                held.remove(h)
                if h[0] in d.held:
                    d.release(h[0])

    d.recv = recv
    seg = case.get("seg") or {}
    client_bytes = b"".join(http1gen.req_bytes(r) for r in case["reqs"])
    resp_descs = case.get("resps") or []
    answered = {}  # conn -> number of requests answered
    state = {"next_resp": 0, "fwd_error": None}
    server_in = {}  # conn -> bytes the scripted server sent

    pending = []  # [conn, response index, client pieces still to wait]
    delays = seg.get("delay") or []
    early = case.get("early") or []

    def deliver(conn, i):
        rd = resp_descs[i]
        raw = http1gen.resp_bytes(rd)
        server_in[conn] = server_in.get(conn, b"") + raw
        scuts = (seg.get("server") or [])
        pieces = cut(raw, scuts[i]) if i < len(scuts) and scuts[i] else [raw]
        for p in pieces:
            if not (conn.state & ConnectionState.CAN_READ):
                break
            d.recv(conn, p)
        if rd.get("close_after") and conn.state & ConnectionState.CAN_READ:
            d.close(conn)

    def pump(tick=False, flush=False):
        """scripted servers: answer every completely forwarded request, after the configured number of further
        client segments (delay) so that client data also arrives while a response is outstanding"""
        progress = True
        while progress and d.crashed is None:
            progress = False
            for conn in list(d.servers):
                if not (conn.state & ConnectionState.CAN_READ):
                    continue
                res = ref_http1.parse_requests(d.out(conn), eof=False)
                if res.error:
                    state["fwd_error"] = res.error
                    continue
                n = len(res.msgs)
                if res.incomplete and res.partial is not None and state["next_resp"] < len(early) and early[state["next_resp"]] \
                        and answered.get(conn, 0) == n:
                    n += 1  # early response: the server answers as soon as it has the request head (streamed uploads)
                while answered.get(conn, 0) < n and state["next_resp"] < len(resp_descs):
                    i = state["next_resp"]
                    state["next_resp"] += 1
                    answered[conn] = answered.get(conn, 0) + 1
                    pending.append([conn, i, delays[i] if i < len(delays) else 0])
            if tick:
                for p in pending:
                    p[2] -= 1
                tick = False
            while pending and (pending[0][2] <= 0 or flush):
                conn, i, _ = pending.pop(0)
                if conn.state & ConnectionState.CAN_READ:
                    deliver(conn, i)
                progress = True

    d.start()
    pieces = cut(client_bytes, seg.get("client") or [])
    for p in pieces:
        if not (ctx.client.state & ConnectionState.CAN_READ) or d.crashed:
            break
        d.recv(ctx.client, p)
        pump(tick=True)
    pump(flush=True)
    if before_close:
        before_close(d)
    if ctx.client.state & ConnectionState.CAN_READ:
        d.close(ctx.client)
    pump(flush=True)
    for conn in list(d.servers):
        if conn.state & ConnectionState.CAN_READ:
            d.close(conn)
    if ctx.client.state is not ConnectionState.CLOSED:
        d.close(ctx.client, full=True)
    # drain held completions (terminal state of C03)
    guard = 0
    while d.held and d.crashed is None and guard < 50:
        guard += 1
        d.release(d.held[0])
    for conn in list(d.servers):
        if conn.state is not ConnectionState.CLOSED:
            d.close(conn, full=True)

    o = Outcome()
    o.driver = d
    o.flows = order
    o.client_bytes = client_bytes
    o.client_out = d.out(ctx.client)
    o.servers = [(c, d.out(c), server_in.get(c, b"")) for c in d.servers]
    o.crashed = d.crashed
    o.fwd_error = state["fwd_error"]
    o.responses_used = state["next_resp"]
    return o
