"""Reference semantics for mitmproxy filter expressions (C42) and a pool of flow *specs*.

Everything the reference evaluator looks at is the plain-Python spec (dicts, tuples, bytes), never the mitmproxy flow
object built from it.  `build_flow(spec)` is the only function touching mitmproxy.  Operators are implemented from the
documented help text of mitmproxy/flowfilter.py (module docstring + per-operator `help`) with Python `re`.

Tree encoding (JSON-able lists; the trailing int of every node is a *style* word consumed by the renderer):
    ["U", code, style]                unary operator  ~code
    ["R", code, regex, style]         regex operator  ~code regex
    ["C", number, style]              ~c number
    ["N", regex, style]               naked regex (== ~u regex)
    ["!", child, style]
    ["&", [children], style]          explicit conjunction
    ["|", [children], style]          disjunction
    ["J", [children], style]          implicit conjunction (juxtaposition)
    ["P", child, style]               redundant parentheses
"""
import re

IGN = re.IGNORECASE

UNARY = ["a", "e", "http", "marked", "replay", "replayq", "replays", "q", "s", "tcp", "udp", "dns", "websocket", "all"]
REX = ["b", "bq", "bs", "t", "tq", "ts", "d", "dst", "h", "hq", "hs", "m", "src", "u", "meta", "marker", "comment"]
BIN_REX = {"b", "bq", "bs", "t", "tq", "ts", "h", "hq", "hs", "m"}
REX_FLAGS = {"h": re.MULTILINE, "hq": re.MULTILINE, "hs": re.MULTILINE, "b": re.DOTALL, "bq": re.DOTALL,
             "bs": re.DOTALL, "meta": re.MULTILINE, "comment": re.MULTILINE}

RESERVED = set("()~'\" \t\r\n")


# ------------------------------------------------------------------ flow specs
def _http(method="GET", scheme="http", host="example.com", port=80, path="/", hosthdr=None, qh=(), qbody=b"",
          resp=None, ws=None, qenc=None, qraw=None, **kw):
    """qbody / resp body: the content the filters are documented to look at (the decoded body, or the bytes as they
    are where the declared Content-Encoding does not decode them).  enc: encode that content for the wire with this
    coding; raw: put exactly these bytes on the wire (content-encoding header that does not fit them)."""
    d = dict(type="http", method=method, scheme=scheme, host=host, port=port, path=path, hosthdr=hosthdr,
             req_headers=list(qh), req_body=qbody, req_enc=qenc, req_raw=qraw, resp=resp, ws=ws)
    d.update(_common(**kw))
    return d


def _common(marked="", comment="", metadata=(), replay=None, error=False, src=("127.0.0.1", 51234),
            dst=("example.com", 80)):
    return dict(marked=marked, comment=comment, metadata=list(metadata), replay=replay, error=error, src=src, dst=dst)


def _resp(code=200, headers=(), body=b"", enc=None, raw=None):
    return dict(code=code, headers=list(headers), body=body, enc=enc, raw=raw)


def _wire(body, enc, raw):
    """bytes on the wire for a spec body (standard library codecs only)"""
    if raw is not None or body is None:
        return raw if raw is not None else None
    if enc == "gzip":
        import gzip
        return gzip.compress(body, mtime=0)
    if enc == "deflate":
        import zlib
        return zlib.compress(body)
    if enc is None:
        return body
    raise ValueError(enc)


def _msgs(type_, messages, **kw):
    d = dict(type=type_, messages=list(messages))
    d.update(_common(**kw))
    return d


def _dns(qname="dns.google", resp=False, **kw):
    d = dict(type="dns", qname=qname, resp=resp)
    d.update(_common(**kw))
    return d


CT = b"content-type"
CE = b"content-encoding"
_NOTGZ = b"this is not gzip, secret 77"
_TRUNC_GZ = bytes.fromhex("1f8b08000000000002ff") + b"\xff\xff\xff\xff garbage 55"   # gzip header followed by an invalid deflate stream
_TRUNC_DEFL = b"x\x9c\xcbH\xcd\xc9"                                                     # zlib stream cut off

SPECS = [
    _http(),
    _http(resp=_resp(200, [(CT, b"text/html; charset=utf-8"), (b"server", b"nginx")], b"<html>Hello World 42</html>")),
    _http("POST", "https", "api.example.com", 443, "/v1/items?id=7&x=(a)", qh=[(CT, b"application/json"), (b"x-token", b"abc123")],
          qbody=b'{"name": "it\'s me", "n": 200}', resp=_resp(201, [(CT, b"application/json")], b'{"ok": true}'),
          dst=("api.example.com", 443), marked=":red_circle:"),
    _http("GET", "https", "cdn.example.org", 8443, "/static/app.js", resp=_resp(200, [(CT, b"application/javascript")], b"var a = 1;\nvar b = 2;"),
          dst=("10.0.0.5", 8443), src=("192.168.1.20", 40000)),
    _http("GET", "http", "10.1.2.3", 8080, "/img/logo.png", hosthdr="images.example.net",
          resp=_resp(200, [(CT, b"image/png")], b"\x89PNG\r\n\x1a\n\x00\x00"), dst=("10.1.2.3", 8080)),
    _http("GET", "http", "example.com", 80, "/style/main.css", resp=_resp(304, [(CT, b"text/css"), (b"etag", b'"x y"')], b""), comment="cached style"),
    _http("GET", "http", "fonts.example.com", 80, "/f/a.woff2", resp=_resp(200, [(CT, b"font/woff2")], b"wOF2\x00\x01"), marked="x"),
    _http("GET", "http", "fonts.example.com", 80, "/f/b.woff", resp=_resp(200, [(CT, b"application/font-woff")], b"wOFF")),
    _http("PUT", "http", "upload.test", 8000, "/files/report%20final.txt", qh=[(CT, b"text/plain"), (b"content-length", b"11")],
          qbody=b"hello world", resp=_resp(500, [(CT, b"text/plain")], b"Internal Error: disk full"), error=True, dst=("upload.test", 8000)),
    _http("DELETE", "https", "api.example.com", 443, "/v1/items/7", resp=_resp(404, [(CT, b"application/json")], b'{"error": "not found"}'),
          dst=("api.example.com", 443), comment="first line\nsecond LINE ~ (x)", replay="request"),
    _http("GET", "http", "example.com", 80, "/redirect", resp=_resp(302, [(b"location", b"https://example.com/new"), (b"set-cookie", b"a=b; Path=/")], b""),
          replay="response"),
    _http("OPTIONS", "http", "example.com", 80, "*", resp=_resp(204, [(b"allow", b"GET, POST")], b"")),
    _http("GET", "http", "gz.example.com", 80, "/compressed", resp=_resp(200, [(CT, b"text/html"), (b"content-encoding", b"gzip")], b"zipped secret text 12345", enc="gzip"),
          metadata=[("owner", "alice"), ("ticket", "T-42")]),
    _http("POST", "http", "forms.example.com", 80, "/submit", qh=[(CT, b"application/x-www-form-urlencoded"), (b"cookie", b"sid=1; theme=dark")],
          qbody=b"a=1&b=two+words&c=%7E", error=True, marked=":eyes:", comment="it's \"quoted\""),
    _http("GET", "http", "ws.example.com", 80, "/chat", qh=[(b"connection", b"upgrade"), (b"upgrade", b"websocket")],
          resp=_resp(101, [(b"upgrade", b"websocket")], b""), ws=[(True, b"hello binary"), (True, b"hello text"), (False, b"it's me")]),
    _http("GET", "http", "ws2.example.com", 80, "/feed", resp=_resp(101, [(b"upgrade", b"websocket")], b""), ws=[(False, b"server push 99")], error=True),
    _http("GET", "http", "xn--bcher-kva.example", 80, "/bücher", resp=_resp(200, [(CT, b"text/html")], "Bücher über Käse шгн".encode()),
          comment="ünï ш"),
    _http("HEAD", "http", "example.com", 80, "/a/b/c.html?q=GET", qh=[(b"accept", b"text/html"), (b"Accept", b"image/*")]),
    _http("GET", "https", "example.com", 443, "/", resp=_resp(200, [(CT, b"application/x-javascript")], b"alert('x')"), dst=None, src=("::1", 9999)),
    _http("GET", "http", "nobody.example.com", 80, "/none", qbody=None, resp=_resp(200, [(CT, b"text/plain")], None)),
    _http("POST", "http", "multi.example.com", 80, "/m", qh=[(CT, b"multipart/form-data; boundary=xx"), (b"x-a", b"1"), (b"x-b", b"2")],
          qbody=b"--xx\r\ncontent-disposition: form-data; name=\"f\"\r\n\r\nvalue one\r\n--xx--\r\n",
          resp=_resp(200, [(CT, b"text/javascript")], b"ok()"), metadata=[("note", "has (parens)")]),
    _http("GET", "http", "example.com", 8080, "/path with space", resp=_resp(418, [(CT, b"text/teapot")], b"I'm a teapot"), dst=("example.com", 8080)),
    _http("PATCH", "http", "EXAMPLE.COM", 80, "/UPPER/Case", qh=[(CT, b"Text/Plain")], qbody=b"MiXeD CaSe", resp=_resp(200, [(CT, b"text/plain")], b"DONE")),
    _http("GET", "http", "tilde.example.com", 80, "/~user/index.html", resp=_resp(200, [(CT, b"text/html")], b"back\\slash and ~tilde and 'single' \"double\"")),
    # repeated header fields: every line counts (only the second Content-Type line is an asset type / json / css)
    _http("GET", "http", "dup1.example.com", 80, "/two-content-types",
          resp=_resp(200, [(CT, b"text/plain"), (b"x-dup", b"first"), (CT, b"image/svg+xml"), (b"x-dup", b"second one")], b"<svg/>")),
    _http("POST", "http", "dup2.example.com", 80, "/two-request-content-types",
          qh=[(CT, b"application/octet-stream"), (b"Content-Type", b"application/json; charset=utf-8"), (b"cookie", b"a=1"), (b"cookie", b"b=2")],
          qbody=b"{}", resp=_resp(200, [(b"set-cookie", b"s=1"), (b"Content-Type", b"text/html"), (b"set-cookie", b"t=2; HttpOnly"), (b"content-type", b"text/css")], b"body{}")),
    # Content-Encoding headers that do not fit the bytes: the body filters look at the bytes as they are
    _http("GET", "http", "enc1.example.com", 80, "/notgzip", resp=_resp(200, [(CT, b"text/plain"), (CE, b"gzip")], _NOTGZ, raw=_NOTGZ)),
    _http("POST", "http", "enc2.example.com", 80, "/notbr", qh=[(CT, b"application/json"), (CE, b"br")], qbody=b'{"plain": "json 42"}', qraw=b'{"plain": "json 42"}',
          resp=_resp(200, [(CT, b"text/html"), (CE, b"zstd")], b"<html>hello zstd-less</html>", raw=b"<html>hello zstd-less</html>")),
    _http("GET", "http", "enc3.example.com", 80, "/corrupt-gzip", resp=_resp(200, [(CT, b"text/html"), (CE, b"gzip")], _TRUNC_GZ, raw=_TRUNC_GZ), error=True),
    _http("PUT", "http", "enc4.example.com", 80, "/unknown", qh=[(CE, b"x-rot13")], qbody=b"uryyb jbeyq 200", qraw=b"uryyb jbeyq 200",
          resp=_resp(200, [(CE, b"deflate")], _TRUNC_DEFL, raw=_TRUNC_DEFL)),
    _http("POST", "http", "enc5.example.com", 80, "/charset-as-coding", qh=[(CE, b"utf8")], qbody=b"hello text", qraw=b"hello text",
          resp=_resp(200, [(CE, b"identity")], b"identity body 7", raw=b"identity body 7")),
    # ... and ones that fit
    _http("POST", "http", "enc6.example.com", 80, "/gzip-request", qh=[(CT, b"text/plain"), (CE, b"gzip")], qbody=b"zipped request hello 99", qenc="gzip",
          resp=_resp(201, [(CT, b"text/plain"), (CE, b"deflate")], b"deflated response me 31", enc="deflate")),
    _msgs("tcp", [(True, b"hello"), (False, b"it's me")], dst=("mail.example.com", 25)),
    _msgs("tcp", [(True, b"EHLO client\r\n"), (False, b"250 OK 200\r\n")], error=True, marked=":red_circle:", dst=("mail.example.com", 587)),
    _msgs("tcp", [], comment="empty tcp", src=("10.0.0.9", 1)),
    _msgs("tcp", [(False, b"server only banner GET")], replay="request", metadata=[("owner", "bob")]),
    _msgs("udp", [(True, b"hello"), (False, b"it's me")], dst=("8.8.8.8", 53)),
    _msgs("udp", [(True, b"\x00\x01binary\xff")], error=True),
    _msgs("udp", [(False, b"text/html example.com")], marked="x", comment="udp (odd)"),
    _dns("dns.google", False, dst=("8.8.8.8", 53)),
    _dns("dns.google", True, dst=("8.8.8.8", 53)),
    _dns("example.com", True, marked=":red_circle:", comment="dns answer"),
    _dns(None, False),
    _dns("api.example.com", False, error=True, replay="response"),
]


def spec_url(s):
    """documented: ~u matches the request URL (pretty_url: Host header preferred), DNS: name of the first question"""
    host = s["hosthdr"] or s["host"]
    default = {"http": 80, "https": 443}[s["scheme"]]
    port = default if s["hosthdr"] else s["port"]
    path = "" if s["path"] == "*" else s["path"]
    if port == default:
        return "%s://%s%s" % (s["scheme"], host, path)
    return "%s://%s:%d%s" % (s["scheme"], host, port, path)


def build_flow(s):
    """spec -> mitmproxy flow (the only mitmproxy-dependent function in this module)"""
    from mitmproxy import connection, dns, flow, http, tcp, udp, websocket
    from mitmproxy.test import tutils
    from wsproto.frame_protocol import Opcode

    cc = connection.Client(peername=s["src"], sockname=("0.0.0.0", 8080), timestamp_start=946681200)
    sc = connection.Server(address=s["dst"])
    t = s["type"]
    if t == "http":
        hdrs = list(s["req_headers"])
        if s["hosthdr"]:
            hdrs.insert(0, (b"Host", s["hosthdr"].encode()))
        req = http.Request(s["host"], s["port"], s["method"].encode(), s["scheme"].encode(), b"", s["path"].encode("utf-8"),
                           b"HTTP/1.1", http.Headers(hdrs), _wire(s["req_body"], s["req_enc"], s["req_raw"]), None,
                           946681200, 946681201)
        f = http.HTTPFlow(cc, sc)
        f.request = req
        if s["resp"] is not None:
            r = s["resp"]
            raw = _wire(r["body"], r["enc"], r["raw"])
            # raw_content is passed directly: the `content` setter would add/modify headers behind the spec's back
            resp = http.Response(b"HTTP/1.1", r["code"], b"X", http.Headers(list(r["headers"])), raw, None, 946681202, 946681203)
            f.response = resp
        if s["ws"] is not None:
            w = websocket.WebSocketData()
            w.messages = [websocket.WebSocketMessage(Opcode.TEXT if i % 2 else Opcode.BINARY, fc, c, 946681203 + i)
                          for i, (fc, c) in enumerate(s["ws"])]
            f.websocket = w
    elif t in ("tcp", "udp"):
        if t == "tcp":
            f = tcp.TCPFlow(cc, sc)
            f.messages = [tcp.TCPMessage(fc, c, 946681204 + i) for i, (fc, c) in enumerate(s["messages"])]
        else:
            f = udp.UDPFlow(cc, sc)
            f.messages = [udp.UDPMessage(fc, c, 946681204 + i) for i, (fc, c) in enumerate(s["messages"])]
    elif t == "dns":
        f = dns.DNSFlow(cc, sc)
        qs = [] if s["qname"] is None else [dns.Question(s["qname"], dns.types.A, dns.classes.IN)]
        f.request = tutils.tdnsreq(questions=qs)
        if s["resp"]:
            f.response = tutils.tdnsresp(questions=qs)
    else:
        raise ValueError(t)
    if s["error"]:
        f.error = flow.Error("some error", 946681207)
    f.marked = s["marked"]
    f.comment = s["comment"]
    for k, v in s["metadata"]:
        f.metadata[k] = v
    f.is_replay = s["replay"]
    f.live = False
    return f


def annotate_dns_text(spec, f):
    """DNS bodies are 'str(message)' - an undocumented rendering; taken from the real object (trusted base)."""
    if spec["type"] == "dns":
        spec = dict(spec)
        spec["dns_req_text"] = str(f.request).encode()
        spec["dns_resp_text"] = str(f.response).encode() if f.response else None
    return spec


# ------------------------------------------------------------------ reference evaluation
def _hdr_text(headers, extra_host=None):
    hs = list(headers)
    if extra_host:
        hs.insert(0, (b"Host", extra_host.encode()))
    return b"".join(n + b": " + v + b"\r\n" for n, v in hs)


def _cts(headers):
    return [v for n, v in headers if n.lower() == b"content-type"]


def _is_asset(ct):
    main = ct.split(b";")[0].strip()
    return (main in (b"text/javascript", b"application/x-javascript", b"application/javascript", b"text/css")
            or main.startswith(b"image/") or main.startswith(b"font/") or main.startswith(b"application/font-"))


def _bodies(s, which):
    """list of byte strings that make up the request side ('q'), the response side ('s') or both ('')"""
    out = []
    t = s["type"]
    if t == "http":
        if which in ("", "q") and s["req_body"] is not None:
            out.append(s["req_body"])
        if which in ("", "s") and s["resp"] is not None and s["resp"]["body"] is not None:
            out.append(s["resp"]["body"])
        for fc, c in (s["ws"] or []):
            if which == "" or (which == "q") == fc:
                out.append(c)
    elif t in ("tcp", "udp"):
        for fc, c in s["messages"]:
            if which == "" or (which == "q") == fc:
                out.append(c)
    elif t == "dns":
        if which in ("", "q"):
            out.append(s["dns_req_text"])
        if which in ("", "s") and s["dns_resp_text"] is not None:
            out.append(s["dns_resp_text"])
    return out


def compile_rex(code, regex):
    flags = IGN | REX_FLAGS.get(code, 0)
    if code in BIN_REX:
        return re.compile(regex.encode("utf-8"), flags)
    return re.compile(regex, flags)


def eval_atom(node, s):
    k = node[0]
    t = s["type"]
    if k == "U":
        c = node[1]
        if c == "all":
            return True
        if c == "e":
            return s["error"]
        if c == "marked":
            return bool(s["marked"])
        if c == "replay":
            return s["replay"] is not None
        if c == "replayq":
            return s["replay"] == "request"
        if c == "replays":
            return s["replay"] == "response"
        if c in ("http", "tcp", "udp", "dns"):
            return t == c
        if c == "websocket":
            return t == "http" and s["ws"] is not None
        if c == "q":
            return (t == "http" and s["resp"] is None) or (t == "dns" and not s["resp"])
        if c == "s":
            return (t == "http" and s["resp"] is not None) or (t == "dns" and bool(s["resp"]))
        if c == "a":
            return t == "http" and s["resp"] is not None and any(_is_asset(v) for v in _cts(s["resp"]["headers"]))
        raise ValueError(c)
    if k == "C":
        return t == "http" and s["resp"] is not None and s["resp"]["code"] == int(node[1])
    if k == "N":
        code, regex = "u", node[1]
    else:
        code, regex = node[1], node[2]
    rx = compile_rex(code, regex)
    if code in ("b", "bq", "bs"):
        return any(rx.search(b) for b in _bodies(s, code[1:]))
    if code == "src":
        return s["src"] is not None and bool(rx.search("%s:%d" % tuple(s["src"])))
    if code == "dst":
        return s["dst"] is not None and bool(rx.search("%s:%d" % tuple(s["dst"])))
    if code == "meta":
        return bool(rx.search("\n".join("%s: %s" % (a, b) for a, b in s["metadata"])))
    if code == "marker":
        return bool(rx.search(s["marked"]))
    if code == "comment":
        return bool(rx.search(s["comment"]))
    if code == "u":
        if t == "http":
            return bool(rx.search(spec_url(s)))
        if t == "dns":
            return s["qname"] is not None and bool(rx.search(s["qname"]))
        return False
    # the rest is HTTP only
    if t != "http":
        return False
    r = s["resp"]
    if code == "m":
        return bool(rx.search(s["method"].encode()))
    if code == "d":
        return bool(rx.search(s["host"])) or bool(s["hosthdr"] and rx.search(s["hosthdr"]))
    if code in ("t", "tq", "ts"):
        vals = []
        if code in ("t", "tq"):
            vals += _cts(s["req_headers"])
        if code in ("t", "ts") and r is not None:
            vals += _cts(r["headers"])
        return any(rx.search(v) for v in vals)
    if code in ("h", "hq", "hs"):
        if code in ("h", "hq") and rx.search(_hdr_text(s["req_headers"], s["hosthdr"])):
            return True
        if code in ("h", "hs") and r is not None and rx.search(_hdr_text(r["headers"])):
            return True
        return False
    raise ValueError(code)


def eval_tree(node, s):
    k = node[0]
    if k == "!":
        return not eval_tree(node[1], s)
    if k in ("&", "J"):
        return all(eval_tree(c, s) for c in node[1])
    if k == "|":
        return any(eval_tree(c, s) for c in node[1])
    if k == "P":
        return eval_tree(node[1], s)
    return eval_atom(node, s)


# ------------------------------------------------------------------ rendering
# whitespace between tokens: the grammar skips pyparsing's default whitespace (space, tab, CR, LF), so a filter may be
# spread over several lines (e.g. read from a file).  A hash of the node's style word selects the variant.
_WS_VARIANTS = [
    (["", " ", "  ", "\t"], [" ", " ", "  ", "\t"]),
    (["", " ", "  ", "\t"], [" ", " ", "  ", "\t"]),
    (["", "\n", " \n", "\r\n"], ["\n", " ", "\n  ", "\r\n"]),
    (["", " ", "\r", "\n\t"], [" ", "\n", "\r", " \n "]),
]


def _mix(st):
    # generated style words are biased towards small numbers, so the selector is a hash of the bits above the lowest
    # six (styles < 64, as used in hand-written witnesses, always select the plain variant)
    return ((st >> 6) * 2654435761) & 0xFFFFFFFF


def _ws(st):
    return _WS_VARIANTS[(_mix(st) >> 20) & 3]


EDGE_WS = ["", "", "", " ", "\n", "\r\n", "\t", " \n"]


def edge_ws(tree):
    """leading / trailing whitespace of the whole expression (a trailing newline is what a file gives)"""
    st = tree[-1]
    return EDGE_WS[(_mix(st) >> 12) & 7], EDGE_WS[(_mix(st) >> 16) & 7]


def quote_rex(regex, style):
    """0: unquoted when the documentation allows it, 1: single-quoted, 2: double-quoted.  Inside quotes the quote
    character and the backslash are backslash-escaped (the inverse of the documented quoted-string reading)."""
    must = (not regex) or any(ch in RESERVED for ch in regex)
    q = style % 3
    if q == 0 and not must:
        return regex, "unq"
    qc = "'" if q == 1 or (q == 0 and '"' in regex and "'" not in regex) else '"'
    return qc + regex.replace("\\", "\\\\").replace(qc, "\\" + qc) + qc, "quote"


PREC = {"|": 1, "&": 2, "J": 2, "!": 3}


def render(node, safe=False):
    """-> (text, startkind, endkind); kinds: code unq num quote paren bang tilde.
    safe=True: one space everywhere a space may go (used only to attribute a rejection to missing whitespace)."""
    k = node[0]
    st = node[-1]
    if k == "U":
        return "~" + node[1], "tilde", "code"
    if k == "C":
        sep = " " if safe else _ws(st)[1][st & 3]
        return "~c" + sep + ("0" if (st >> 2) & 7 == 0 and not safe else "") + str(node[1]), "tilde", "num"
    if k == "R":
        txt, kind = quote_rex(node[2], st)
        sep = " " if safe else _ws(st)[1][(st >> 4) & 3]
        return "~" + node[1] + sep + txt, "tilde", kind
    if k == "N":
        regex = node[1]
        s2 = st
        if regex[:1] in ("!", "&", "|") and s2 % 3 == 0:
            s2 += 1
        txt, kind = quote_rex(regex, s2)
        return txt, kind, kind
    if k == "P":
        return _paren(render(node[1], safe), st, safe)
    if k == "!":
        inner = _child(node[1], 3, st >> 3, safe)
        sep = " " if safe else _ws(st)[0][st & 1]
        return "!" + sep + inner[0], "bang", inner[2]
    # n-ary
    parts = [_child(c, PREC[k], (st >> (5 * i + 3)), safe, right=i > 0) for i, c in enumerate(node[1])]
    out, start, end = parts[0]
    for i, (txt, s0, e0) in enumerate(parts[1:]):
        w = (st >> (4 * i)) & 15
        if k == "J":
            sep = _ws(st)[1][w & 3]
            if not safe and (w >> 2) == 0 and (end in ("paren", "quote") or s0 == "paren"):
                sep = ""
            if safe:
                sep = " "
            out += sep + txt
        else:
            l, r = _ws(st)[0][w & 3], _ws(st)[0][(w >> 2) & 3]
            if end == "unq" and not l:
                l = " "  # documented: only reserved characters end an unquoted regex
            if safe:
                l = r = " "
            out += l + k + r + txt
        end = e0
    return out, start, end


def _paren(inner, st, safe):
    txt, s0, e0 = inner
    l, r = _ws(st)[0][st & 1], _ws(st)[0][(st >> 1) & 1]
    if safe:
        l = r = " "
    return "(" + l + txt + r + ")", "paren", "paren"


def _child(c, parent_prec, st, safe, right=False):
    k = c[0]
    need = k in PREC and (PREC[k] < parent_prec)
    r = render(c, safe)
    if need:
        return _paren(r, st, safe)
    return r


_CODE_GLUE = re.compile(r"~[a-z]+[)(|&]")


def code_glued(text):
    """does the text contain an operator code immediately followed by ) ( | & (outside quotes is not checked: callers
    use this only together with the safe re-rendering)"""
    return bool(_CODE_GLUE.search(text))


def juxt_under_or(node, under_or=False):
    """is there an implicit conjunction that the renderer emits as an unparenthesised operand of '|' (directly or
    through '&'/juxtaposition, which get no parentheses under '|')?  There the implementation's
    OneOrMore(infix_notation) reading differs from 'the default binary operator is &'."""
    k = node[0]
    if k == "J" and under_or:
        return True
    if k == "|":
        return any(juxt_under_or(c, True) for c in node[1])
    if k in ("&", "J"):
        return any(juxt_under_or(c, under_or and c[0] in ("&", "J")) for c in node[1])
    if k in ("!", "P"):
        return juxt_under_or(node[1], False)
    return False


def j_to_and(node):
    """the same tree with every juxtaposition written as an explicit '&'"""
    k = node[0]
    if k in ("!", "P"):
        return [k, j_to_and(node[1]), node[-1]]
    if k in ("&", "|", "J"):
        return ["&" if k == "J" else k, [j_to_and(c) for c in node[1]], node[-1]]
    return node


def j_in_parens(node, inside=False):
    """is a juxtaposition rendered inside a pair of parentheses?"""
    k = node[0]
    if k == "J":
        return inside or any(j_in_parens(c, inside or (c[0] in PREC and PREC[c[0]] < 2)) for c in node[1])
    if k == "P":
        return j_in_parens(node[1], True)
    if k == "!":
        return j_in_parens(node[1], inside or node[1][0] in ("&", "|", "J"))
    if k in ("&", "|"):
        return any(j_in_parens(c, inside or (c[0] in PREC and PREC[c[0]] < PREC[k])) for c in node[1])
    return False


def shape(node):
    k = node[0]
    if k in ("U", "C", "N"):
        return k
    if k == "R":
        return "R"
    if k in ("!", "P"):
        return k + "(" + shape(node[1]) + ")"
    return k + "(" + ",".join(shape(c) for c in node[1]) + ")"


def connectives(node, acc=None):
    acc = set() if acc is None else acc
    k = node[0]
    if k in ("!", "P"):
        acc.add(k)
        connectives(node[1], acc)
    elif k in ("&", "|", "J"):
        acc.add(k)
        for c in node[1]:
            connectives(c, acc)
    return acc


def paren_depth(node, parent_prec=0):
    """maximum nesting of parentheses the renderer will emit"""
    k = node[0]
    if k in ("U", "C", "N", "R"):
        return 0
    if k == "P":
        return 1 + paren_depth(node[1], 0)
    if k == "!":
        d = paren_depth(node[1], 3)
        return d + (1 if PREC["!"] < parent_prec else 0)
    d = max(paren_depth(c, PREC[k]) for c in node[1])
    return d + (1 if PREC[k] < parent_prec else 0)
