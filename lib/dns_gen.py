"""Hypothesis strategies for DNS names, RDATA and messages (shared by C25, C26, C27).

Everything is text/bytes/ints/lists so that cases are JSON-able.  Names are lists of *text* labels (U-labels for IDN);
``ref_dns.name_to_labels`` turns them into wire labels, ``".".join`` into mitmproxy's presentation form.

A "desc" is the message description understood by ``ref_dns.encode`` except that names are lists of text labels:
    {"id","qr","opcode","aa","tc","rd","ra","z","rcode",
     "q": [[name, mode, type, class]], "an"/"ns"/"ar": [[name, mode, type, class, ttl, fields]]}
    fields = [["n", name, mode] | ["b", bytes]]
"""
from __future__ import annotations

import struct

from hypothesis import strategies as st

import ref_dns as R

# ---------------------------------------------------------------- labels
_LDH = "abcdefghijklmnopqrstuvwxyz0123456789-"
_LDH_MIXED = _LDH + "ABCDEFGHIJKLMNOPQRSTUVWXYZ_"
_ASCII_ODD = "".join(chr(c) for c in range(128) if chr(c) != ".")

_IDN_ALPHABETS = [
    "àáâãäåæçèéêëìíîïñòóôõöøùúûüýÿ",  # Latin-1 lower case
    "āăąćĉċčďđēĕėęěĝğġģĥħĩīĭįıĵķĺļľŀłńņňŋōŏőœŕŗřśŝşšţťŧũūŭůűųŵŷźżž",
    "αβγδεζηθικλμνξοπρστυφχψωάέήίόύώ",
    "абвгдежзийклмнопрстуфхцчшщъыьэюяёђѓєѕіїјљњћќў",
    "אבגדהוזחטיכלמנסעפצקרשת",
    "ابتثجحخدذرزسشصضطظعغفقكلمنهوي",
    "あいうえおかきくけこさしすせそたちつてとなにぬねの",
    "アイウエオカキクケコサシスセソタチツテト",
    "中文网络域名測試例子日本語한국어도메인",
    "कखगघचछजझटठडढणतथदधनपफबभमयरलवशषसह",
    "กขคงจฉชซญดตถทธนบปผฝพฟภมยรลวศษสหอ",
]


def idna_canonical_label(lbl: str) -> bool:
    """precondition of C25 (stdlib codec only): the label is its own IDNA round trip"""
    try:
        return lbl.encode("idna").decode("idna") == lbl and "." not in lbl
    except UnicodeError:
        return False


def _idn_pool():
    pool = []
    x = 12345
    for alpha in _IDN_ALPHABETS:
        for n in (1, 2, 3, 5, 8, 13):
            for mix in (0, 1, 2):
                s = []
                for i in range(n):
                    x = (x * 1103515245 + 12345) & 0x7FFFFFFF
                    s.append(alpha[x % len(alpha)])
                lbl = "".join(s)
                if mix == 1 and ord(alpha[0]) < 0x590:  # LTR scripts: mix with ASCII
                    lbl = "a" + lbl + "1"
                elif mix == 2 and ord(alpha[0]) < 0x590:
                    lbl = lbl + "-x"
                if idna_canonical_label(lbl) and lbl not in pool:
                    pool.append(lbl)
    pool += [l for l in ["bücher", "münchen", "faß".replace("ß", "ss"), "παράδειγμα", "пример", "испытание", "例え",
                         "测试", "테스트", "مثال", "דוגמה", "ñandú", "łódź", "ü", "é" * 20, "ö" * 40]
             if idna_canonical_label(l) and l not in pool]
    return pool


IDN_POOL = _idn_pool()

_common_label = st.sampled_from(
    ["www", "com", "example", "org", "net", "mail", "ns1", "ns2", "_tcp", "_udp", "_sip", "_dmarc", "a", "b", "c",
     "in-addr", "arpa", "ip6", "10", "0", "co", "uk", "test", "localhost", "x", "WWW", "Example", "*", "0/26",
     "a" * 63, "b" * 62, "0" * 63])


def _no_ace(s: str) -> bool:
    return "xn--" not in s.lower()


_ldh_label = st.text(alphabet=_LDH, min_size=1, max_size=12).filter(_no_ace)
_mixed_label = st.text(alphabet=_LDH_MIXED, min_size=1, max_size=20).filter(_no_ace)
_long_label = st.text(alphabet=_LDH_MIXED, min_size=56, max_size=63).filter(_no_ace)
_odd_label = st.text(alphabet=_ASCII_ODD, min_size=1, max_size=6).filter(_no_ace)
_idn_label = st.one_of(
    st.sampled_from(IDN_POOL),
    st.sampled_from(_IDN_ALPHABETS).flatmap(lambda a: st.text(alphabet=a, min_size=1, max_size=9)).filter(
        idna_canonical_label),
)

#: labels a real peer sends (and mitmproxy's str form can express): LDH, mixed case, underscore, IDN
label = st.one_of(_common_label, _common_label, _ldh_label, _mixed_label, _idn_label, _long_label)
#: additionally unusual-but-legal ASCII octets (space, @, control characters, ...)
label_any = st.one_of(_common_label, _ldh_label, _mixed_label, _idn_label, _long_label, _odd_label)


def fit_name(labels):
    """drop leading labels until the wire form fits in 255 octets"""
    labels = list(labels)
    while labels and R.name_wire_len(R.name_to_labels(".".join(labels))) > 255:
        labels.pop(0)
    return labels


def names(lbl=label, max_labels=5):
    return st.lists(lbl, min_size=0, max_size=max_labels).map(fit_name)


#: maximal names (255 octets on the wire)
max_name = st.tuples(st.sampled_from("abcXYZ019_"), st.sampled_from("mno")).map(
    lambda t: [t[0] * 61, t[1] * 63, "p" * 63, "q" * 63])


def _mk_pool(t):
    bases, extra, want_max, mx, want_root = t
    out = [fit_name(b) for b in bases]
    for pre, i in extra:
        out.append(fit_name(pre + out[i % len(out)]))
    if want_max == 0:
        out.append(mx)
    if want_root == 0:
        out.append([])  # root
    return out


def name_pool(lbl=label):
    """a few base domains plus names sharing their suffixes (what makes compression possible)"""
    return st.tuples(
        st.lists(st.lists(lbl, min_size=1, max_size=3), min_size=1, max_size=3),
        st.lists(st.tuples(st.lists(lbl, min_size=1, max_size=2), st.integers(0, 7)), max_size=4),
        st.integers(0, 19), max_name, st.integers(0, 9)).map(_mk_pool)


# ---------------------------------------------------------------- scalar fields
_ptr16 = st.one_of(st.integers(0xC00C, 0xC040), st.sampled_from([0xC000, 0xC00C, 0xC00D, 0xC011, 0xC0FF, 0xFFFF,
                                                                  0xC10C, 0xE00C, 0xFF0C]))
u16 = st.one_of(st.integers(0, 0xFFFF), st.integers(0, 100), _ptr16)
u16_ptrish = st.one_of(_ptr16, st.integers(0xC000, 0xFFFF))
u32 = st.one_of(st.integers(0, 0xFFFFFFFF), st.integers(0, 100000),
                st.tuples(_ptr16, st.integers(0, 0xFFFF)).map(lambda t: t[0] << 16 | t[1]),
                st.tuples(st.integers(0, 0xFFFF), _ptr16).map(lambda t: t[0] << 16 | t[1]),
                st.tuples(st.integers(0, 0xFF), _ptr16, st.integers(0, 0xFF)).map(lambda t: t[0] << 24 | t[1] << 8 | t[2]))
ttl = st.one_of(st.sampled_from([0, 1, 60, 300, 3600, 86400, 0x7FFFFFFF, 0x80000000, 0xFFFFFFFF, 0xC00C0000 | 0xC00C]),
                st.integers(0, 0xFFFFFFFF))
klass = st.one_of(st.just(1), st.just(1), st.just(1), st.sampled_from([3, 4, 254, 255, 0]), st.integers(0, 0xFFFF))

_ptr_bytes = _ptr16.map(lambda v: struct.pack("!H", v))
_text_piece = st.one_of(
    st.sampled_from([b"v=spf1 include:_spf.example.com ~all", b"hello", b"k=rsa; p=MIGf", b"\xc3\xa9t\xc3\xa9",
                     b"\xe4\xb8\xad\xe6\x96\x87", b"\xf0\x9f\x98\x80", b"", b" ", b"\x00", b"\xff", b"\xc0", b"\xc0\x0c"]),
    _ptr_bytes, _ptr_bytes,
    st.binary(min_size=0, max_size=12),
    st.text(alphabet=_LDH + " =;:.", max_size=20).map(lambda s: s.encode()),
)
_cs_body = st.lists(_text_piece, max_size=5).map(lambda ps: b"".join(ps)[:255])
char_string = _cs_body.map(lambda b: bytes([len(b)]) + b)
char_string_long = st.binary(min_size=200, max_size=255).map(lambda b: bytes([len(b)]) + b)
blob = st.one_of(st.lists(_text_piece, max_size=6).map(b"".join), st.binary(max_size=40))

KNOWN_OPAQUE_TYPES = [R.A, R.AAAA, R.TXT, R.HINFO, R.OPT, R.HTTPS, R.SVCB, R.NULL, R.DS, R.DNSKEY, R.RRSIG, R.NSEC,
                      R.CAA, R.WKS, R.X25, R.ISDN, R.KEY]
NAME_TYPES = sorted(R.LAYOUT)


def _be(n, size):
    return n.to_bytes(size, "big")


comp_mode = st.sampled_from([0, 1, 1, 1, 2])
_idx = st.integers(0, 15)


def _b(s):
    return s.map(lambda v: ["b", v])


def _seq(*parts):
    return st.tuples(*parts).map(list)


def _rdata_fields(rtype, allow_comp):
    """strategy for the RDATA field list of one record of ``rtype`` (well-formed for the type); names are pool indices"""
    nm = st.tuples(st.just("n"), _idx, comp_mode if allow_comp else st.just(0)).map(list)
    nm_plain = st.tuples(st.just("n"), _idx, st.just(0)).map(list)
    b, seq = _b, _seq
    lay = R.LAYOUT.get(rtype)
    if lay is not None:
        parts = []
        for f in lay:
            if f == "n":
                parts.append(nm)
            elif f == "cs":
                parts.append(b(char_string))
            elif f == "rest":
                parts.append(b(blob))
            elif f == 1:
                parts.append(b(st.integers(0, 255).map(lambda v: _be(v, 1))))
            elif f == 2:
                parts.append(b(u16.map(lambda v: _be(v, 2))))
            else:
                parts.append(b(u32.map(lambda v: _be(v, 4))))
        return seq(*parts)
    if rtype == R.A:
        return seq(b(st.one_of(st.binary(min_size=4, max_size=4), st.sampled_from([b"\xc0\x0c\xc0\x0c", b"\xc0\xa8\x00\x01",
                                                                                   b"\x7f\x00\x00\x01"]))))
    if rtype == R.AAAA:
        return seq(b(st.one_of(st.binary(min_size=16, max_size=16), st.just(b"\xc0\x0c" * 8))))
    if rtype == R.TXT:
        return st.lists(b(st.one_of(char_string, char_string, char_string_long)), min_size=1, max_size=3)
    if rtype == R.HINFO:
        return seq(b(char_string), b(char_string))
    if rtype in (R.HTTPS, R.SVCB):
        params = st.lists(st.tuples(st.integers(0, 7), blob).map(
            lambda t: _be(t[0], 2) + _be(len(t[1]), 2) + t[1]), max_size=3).map(b"".join)
        # RFC 9460: TargetName is never compressed
        return seq(b(u16.map(lambda v: _be(v, 2))), nm_plain, b(params))
    if rtype == R.OPT:
        return st.lists(b(st.tuples(st.integers(0, 20), blob).map(
            lambda t: _be(t[0], 2) + _be(len(t[1]), 2) + t[1])), max_size=3)
    if rtype == R.RRSIG:
        return seq(b(st.binary(min_size=18, max_size=18)), nm_plain, b(blob))
    if rtype == R.NSEC:
        return seq(nm_plain, b(blob))
    return seq(b(blob))


_SPECIAL = set(R.LAYOUT) | {R.A, R.AAAA, R.TXT, R.HINFO, R.HTTPS, R.SVCB, R.OPT, R.RRSIG, R.NSEC}
#: type codes without a layout known to this generator (RDATA = arbitrary bytes)
other_type = st.one_of(st.sampled_from([R.NULL, R.DS, R.DNSKEY, R.CAA, R.WKS, R.X25, R.ISDN, R.KEY, 99, 255, 0, 0xFFFF]),
                       st.integers(0, 0xFFFF)).map(lambda t: t if t not in _SPECIAL else 0xFE00 + t)
q_type = st.one_of(st.sampled_from([1, 28, 5, 2, 12, 15, 6, 33, 16, 65, 255, 252]), st.integers(0, 0xFFFF))


def _record_of(t, allow_comp):
    ts = st.just(t) if isinstance(t, int) else t
    mode = comp_mode if allow_comp else st.just(0)
    return st.tuples(_idx, mode, ts, klass, ttl, _rdata_fields(t if isinstance(t, int) else -1, allow_comp)).map(list)


def _records(allow_comp):
    common = [R.A, R.AAAA, R.CNAME, R.NS, R.PTR, R.MX, R.SOA, R.SRV, R.TXT, R.TXT, R.HTTPS, R.OPT, R.HINFO]
    per = {t: _record_of(t, allow_comp) for t in sorted(_SPECIAL)}
    return st.one_of(
        st.one_of(*[per[t] for t in common]),
        st.one_of(*[per[t] for t in common]),
        st.one_of(*[per[t] for t in sorted(_SPECIAL)]),
        _record_of(other_type, allow_comp),
    ), per


_RECORDS = {True: _records(True), False: _records(False)}

header = st.fixed_dictionaries({
    "id": st.one_of(st.integers(0, 0xFFFF), st.sampled_from([0, 0xFFFF, 0xC00C])),
    "qr": st.integers(0, 1), "opcode": st.one_of(st.just(0), st.integers(0, 15)),
    "aa": st.integers(0, 1), "tc": st.integers(0, 1), "rd": st.integers(0, 1), "ra": st.integers(0, 1),
    "z": st.one_of(st.just(0), st.integers(0, 7)), "rcode": st.one_of(st.just(0), st.integers(0, 15)),
})


def _resolve(t):
    hdr, pool, qs, shape, an, ns, ar, qr = t
    n = len(pool)
    d = dict(hdr)
    if qr is not None:
        d["qr"] = qr

    def rr(r):
        i, m, ty, c, tl, fs = r
        return [pool[i % n], m, ty, c, tl, [[f[0], pool[f[1] % n], f[2]] if f[0] == "n" else f for f in fs]]

    d["q"] = [[pool[i % n], m, ty, c] for i, m, ty, c in qs]
    if d["qr"] == 0 and shape:
        # plain query: no records except sometimes an OPT
        d["an"], d["ns"] = [], []
        d["ar"] = [rr(r) for r in ar if r[2] == R.OPT][:1]
    else:
        d["an"], d["ns"], d["ar"] = [rr(r) for r in an], [rr(r) for r in ns], [rr(r) for r in ar]
    return d


def message(lbl=label, allow_comp=True, max_q=3, max_rr=4, qr=None, types=None):
    """strategy for a message description.  ``types``: restrict record types to this list of (special) type codes"""
    rec, per = _RECORDS[bool(allow_comp)]
    if types is not None:
        rec = st.one_of(*[per[t] for t in types])
    mode = comp_mode if allow_comp else st.just(0)
    q = st.tuples(_idx, mode, q_type, klass).map(list)
    nq = [1, 1, 1, 1, 0, 2, 3]
    qs = st.sampled_from([k for k in nq if k <= max_q]).flatmap(lambda k: st.lists(q, min_size=k, max_size=k))
    return st.tuples(header, name_pool(lbl), qs, st.integers(0, 3), st.lists(rec, max_size=max_rr),
                     st.lists(rec, max_size=max(1, max_rr // 2)), st.lists(rec, max_size=max(1, max_rr // 2)),
                     st.just(qr)).map(_resolve)


# ---------------------------------------------------------------- desc helpers
def to_wire_desc(d):
    """text-label desc -> desc for ref_dns.encode (wire labels)"""
    L = R.name_to_labels

    def fields(fs):
        return [["n", L(".".join(f[1])), f[2]] if f[0] == "n" else ["b", f[1]] for f in fs]

    out = {k: d[k] for k in ("id", "qr", "opcode", "aa", "tc", "rd", "ra", "z", "rcode")}
    out["q"] = [[L(".".join(n)), m, t, c] for n, m, t, c in d["q"]]
    for sec in ("an", "ns", "ar"):
        out[sec] = [[L(".".join(n)), m, t, c, tl, fields(fs)] for n, m, t, c, tl, fs in d[sec]]
    return out


def simple_query(mid, name, qtype=1, rd=1, opcode=0, klass_=1):
    return {"id": mid, "qr": 0, "opcode": opcode, "aa": 0, "tc": 0, "rd": rd, "ra": 0, "z": 0, "rcode": 0,
            "q": [[name, 0, qtype, klass_]], "an": [], "ns": [], "ar": []}
