"""Hypothesis strategies for DNS names, RDATA and messages (shared by C25, C26, C27).

Everything is text/bytes/ints/lists so that cases are JSON-able.  Names are lists of *text* labels (U-labels for IDN);
``ref_dns.name_to_labels`` turns them into wire labels, ``".".join`` into mitmproxy's presentation form.

A "desc" is the message description understood by ``ref_dns.encode`` except that names are lists of text labels:
    {"id","qr","opcode","aa","tc","rd","ra","z","rcode",
     "q": [[name, mode, type, class]], "an"/"ns"/"ar": [[name, mode, type, class, ttl, fields]]}
    fields = [["n", name, mode] | ["b", bytes]]
"""
from __future__ import annotations

import struct

from hypothesis import strategies as st

import ref_dns as R

# ---------------------------------------------------------------- labels
_LDH = "abcdefghijklmnopqrstuvwxyz0123456789-"
_LDH_MIXED = _LDH + "ABCDEFGHIJKLMNOPQRSTUVWXYZ_"
_ASCII_ODD = "".join(chr(c) for c in range(128) if chr(c) != ".")

_IDN_ALPHABETS = [
    "àáâãäåæçèéêëìíîïñòóôõöøùúûüýÿ",  # Latin-1 lower case
    "āăąćĉċčďđēĕėęěĝğġģĥħĩīĭįıĵķĺļľŀłńņňŋōŏőœŕŗřśŝşšţťŧũūŭůűųŵŷźżž",
    "αβγδεζηθικλμνξοπρστυφχψωάέήίόύώ",
    "абвгдежзийклмнопрстуфхцчшщъыьэюяёђѓєѕіїјљњћќў",
    "אבגדהוזחטיכלמנסעפצקרשת",
    "ابتثجحخدذرزسشصضطظعغفقكلمنهوي",
    "あいうえおかきくけこさしすせそたちつてとなにぬねの",
    "アイウエオカキクケコサシスセソタチツテト",
    "中文网络域名測試例子日本語한국어도메인",
    "कखगघचछजझटठडढणतथदधनपफबभमयरलवशषसह",
    "กขคงจฉชซญดตถทธนบปผฝพฟภมยรลวศษสหอ",
]


def idna_canonical_label(lbl: str) -> bool:
    """precondition of C25 (stdlib codec only): the label is its own IDNA round trip"""
    try:
        return lbl.encode("idna").decode("idna") == lbl and "." not in lbl
    except UnicodeError:
        return False


def _idn_pool():
    pool = []
    x = 12345
    for alpha in _IDN_ALPHABETS:
        for n in (1, 2, 3, 5, 8, 13):
            for mix in (0, 1, 2):
                s = []
                for i in range(n):
                    x = (x * 1103515245 + 12345) & 0x7FFFFFFF
                    s.append(alpha[x % len(alpha)])
                lbl = "".join(s)
                if mix == 1 and ord(alpha[0]) < 0x590:  # LTR scripts: mix with ASCII
                    lbl = "a" + lbl + "1"
                elif mix == 2 and ord(alpha[0]) < 0x590:
                    lbl = lbl + "-x"
                if idna_canonical_label(lbl) and lbl not in pool:
                    pool.append(lbl)
    pool += [l for l in ["bücher", "münchen", "faß".replace("ß", "ss"), "παράδειγμα", "пример", "испытание", "例え",
                         "测试", "테스트", "مثال", "דוגמה", "ñandú", "łódź", "ü", "é" * 20, "ö" * 40,
                         # A-labels of exactly 63 / 62 octets
                         "ö" * 57, "я" * 57, "あ" * 57, "ö" * 56, "я" * 56]
             if idna_canonical_label(l) and l not in pool]
    return pool


IDN_POOL = _idn_pool()

_common_label = st.sampled_from(
    ["www", "com", "example", "org", "net", "mail", "ns1", "ns2", "_tcp", "_udp", "_sip", "_dmarc", "a", "b", "c",
     "in-addr", "arpa", "ip6", "10", "0", "co", "uk", "test", "localhost", "x", "WWW", "Example", "*", "0/26",
     "a" * 63, "b" * 62, "0" * 63])


def _no_ace(s: str) -> bool:
    return "xn--" not in s.lower()


_ldh_label = st.text(alphabet=_LDH, min_size=1, max_size=12).filter(_no_ace)
_mixed_label = st.text(alphabet=_LDH_MIXED, min_size=1, max_size=20).filter(_no_ace)
_long_label = st.text(alphabet=_LDH_MIXED, min_size=56, max_size=63).filter(_no_ace)
_odd_label = st.text(alphabet=_ASCII_ODD, min_size=1, max_size=6).filter(_no_ace)
_idn_label = st.one_of(
    st.sampled_from(IDN_POOL),
    st.one_of(*[st.text(alphabet=a, min_size=1, max_size=9) for a in _IDN_ALPHABETS]).filter(idna_canonical_label),
)

#: labels a real peer sends (and mitmproxy's str form can express): LDH, mixed case, underscore, IDN
label = st.one_of(_common_label, _common_label, _ldh_label, _mixed_label, _idn_label, _long_label)
#: additionally unusual-but-legal ASCII octets (space, @, control characters, ...)
label_any = st.one_of(_common_label, _ldh_label, _mixed_label, _idn_label, _long_label, _odd_label)


def fit_name(labels):
    """drop leading labels until the wire form fits in 255 octets"""
    labels = list(labels)
    while labels and R.name_wire_len(R.name_to_labels(".".join(labels))) > 255:
        labels.pop(0)
    return labels


def names(lbl=label, max_labels=5):
    return st.lists(lbl, min_size=0, max_size=max_labels).map(fit_name)


#: maximal names (255 octets on the wire)
max_name = st.tuples(st.sampled_from("abcXYZ019_"), st.sampled_from("mno")).map(
    lambda t: [t[0] * 61, t[1] * 63, "p" * 63, "q" * 63])


def _mk_pool(t):
    bases, extra, want_max, mx, want_root = t
    out = [fit_name(b) for b in bases]
    for pre, i in extra:
        out.append(fit_name(pre + out[i % len(out)]))
    if want_max == 0:
        out.append(mx)
    if want_root == 0:
        out.append([])  # root
    return out


def name_pool(lbl=label):
    """a few base domains plus names sharing their suffixes (what makes compression possible)"""
    return st.tuples(
        st.lists(st.lists(lbl, min_size=1, max_size=3), min_size=1, max_size=3),
        st.lists(st.tuples(st.lists(lbl, min_size=1, max_size=2), st.integers(0, 7)), max_size=4),
        st.integers(0, 19), max_name, st.integers(0, 9)).map(_mk_pool)


# ---------------------------------------------------------------- fast structured generation
# Hypothesis' per-draw overhead (~20-60 us) dominates when a message needs ~200 draws, so a message is decoded from ONE
# Hypothesis draw (a fixed-size byte string used as an entropy stream).  Zero bytes decode to the simplest choice, so
# Hypothesis' byte-wise shrinking still simplifies cases.
class Src:
    __slots__ = ("b", "i")

    def __init__(self, b: bytes):
        self.b = b
        self.i = 0

    def u8(self) -> int:
        i = self.i
        self.i = i + 1
        return self.b[i] if i < len(self.b) else 0

    def u16(self) -> int:
        return self.u8() << 8 | self.u8()

    def u32(self) -> int:
        return self.u16() << 16 | self.u16()

    def below(self, n: int) -> int:
        return (self.u8() if n <= 256 else self.u16()) % n

    def pick(self, seq):
        return seq[self.below(len(seq))]

    def take(self, n: int) -> bytes:
        i = self.i
        self.i = i + n
        out = self.b[i:i + n]
        return out + b"\0" * (n - len(out))


_COMMON = ["wWw", "ExAmPlE", "cOm", "MAIL", "Ns1", "oRG",  # DNS 0x20 style mixed case
           "www", "com", "example", "org", "net", "mail", "ns1", "ns2", "_tcp", "_udp", "_sip", "_dmarc", "a", "b", "c",
           "in-addr", "arpa", "ip6", "10", "0", "co", "uk", "test", "localhost", "x", "WWW", "Example", "*", "0/26",
           "a" * 63, "b" * 62, "0" * 63]
_ODD = [c for c in _ASCII_ODD]


def _text(s: Src, alphabet, lo, hi):
    n = lo + s.below(hi - lo + 1)
    return "".join(alphabet[s.below(len(alphabet))] for _ in range(n))


def gen_label(s: Src, odd=True) -> str:
    for _ in range(4):
        k = s.below(14)
        if k >= 12:
            # boundary lengths: 63 octets is the legal maximum (RFC 1035 2.3.4); 62/61 just below it
            n = (63, 63, 63, 62, 62, 61, 32, 1)[s.below(8)]
            if k == 12:
                return "abcxyzABZ019_-"[s.below(13)] * n
            l = _text(s, _LDH_MIXED, n, n)
            if _no_ace(l):
                return l
            continue
        if k < 4:
            return _COMMON[s.below(len(_COMMON))]
        if k < 6:
            l = _text(s, _LDH, 1, 12)
        elif k < 8:
            l = _text(s, _LDH_MIXED, 1, 20)
        elif k == 8:
            l = _text(s, _LDH_MIXED, 56, 63)
        elif k == 9:
            return IDN_POOL[s.below(len(IDN_POOL))]
        elif k == 10:
            l = _text(s, _IDN_ALPHABETS[s.below(len(_IDN_ALPHABETS))], 1, 9)
            if idna_canonical_label(l):
                return l
            continue
        else:
            l = _text(s, _ODD if odd else _LDH_MIXED, 1, 6)
        if _no_ace(l):
            return l
    return "x"


def gen_pool(s: Src, odd=True):
    out = []
    for _ in range(1 + s.below(3)):
        out.append(fit_name([gen_label(s, odd) for _ in range(1 + s.below(3))]))
    for _ in range(s.below(4)):
        pre = [gen_label(s, odd) for _ in range(1 + s.below(2))]
        out.append(fit_name(pre + out[s.below(len(out))]))
    k = s.below(40)
    if k < 3:
        # exactly 255 octets on the wire (k == 0, 1) or 254 (k == 2), with a shorter sibling sharing its 63-octet suffixes
        out.append(["abcXYZ019_"[s.below(10)] * (61 if k < 2 else 60), "mno"[s.below(3)] * 63, "p" * 63, "q" * 63])
        out.append(out[-1][1 + s.below(3):])
    elif k < 6:
        out.append([])  # root
    return out


_PTR16 = [0xC000, 0xC00C, 0xC00D, 0xC011, 0xC0FF, 0xFFFF, 0xC10C, 0xE00C, 0xFF0C]


def gen_ptr16(s: Src) -> int:
    return 0xC00C + s.below(0x35) if s.below(2) else s.pick(_PTR16)


_SMALL16 = [0, 1, 5, 10, 20, 100, 443, 853, 5060, 8080, 65535 & 0x7FFF]
_SMALL32 = [0, 1, 60, 300, 900, 3600, 7200, 86400, 604800, 1209600, 2024010101, 2025063001, 1700000000]


def gen_u16(s: Src) -> int:
    """half of the values are realistic small numbers (no octet >= 0xC0), the rest pointer look-alikes or arbitrary"""
    k = s.below(8)
    if k < 2:
        return s.below(101)
    if k < 4:
        return s.pick(_SMALL16)
    return gen_ptr16(s) if k == 4 else s.u16()


def gen_u32(s: Src) -> int:
    k = s.below(10)
    if k < 2:
        return s.below(101)
    if k < 5:
        return s.pick(_SMALL32)
    if k == 5:
        return gen_ptr16(s) << 16 | s.u16()
    if k == 6:
        return s.u16() << 16 | gen_ptr16(s)
    if k == 7:
        return s.u8() << 24 | gen_ptr16(s) << 8 | s.u8()
    return s.u32()


_TTLS = [0, 60, 300, 3600, 1, 86400, 0x7FFFFFFF, 0x80000000, 0xFFFFFFFF, 0xC00CC00C]
_CLASSES = [3, 4, 254, 255, 0]
_TEXTS = [b"v=spf1 include:_spf.example.com ~all", b"hello", b"k=rsa; p=MIGf", b"\xc3\xa9t\xc3\xa9",
          b"\xe4\xb8\xad\xe6\x96\x87", b"\xf0\x9f\x98\x80", b"", b" ", b"\x00", b"\xff", b"\xc0", b"\xc0\x0c"]


def gen_ttl(s: Src) -> int:
    k = s.below(4)
    return s.pick(_TTLS) if k < 2 else s.pick(_TTLS[:4]) if k == 2 else s.u32()


def gen_class(s: Src) -> int:
    k = s.below(8)
    return 1 if k < 6 else s.pick(_CLASSES) if k == 6 else s.u16()


def gen_piece(s: Src) -> bytes:
    k = s.below(5)
    if k == 0:
        return s.pick(_TEXTS)
    if k < 3:
        return struct.pack("!H", gen_ptr16(s))
    if k == 3:
        return s.take(s.below(13))
    return _text(s, _LDH + " =;:.", 0, 20).encode()


def gen_cs(s: Src) -> bytes:
    if s.below(12) == 0:
        body = s.take(200 + s.below(56))
    else:
        body = b"".join(gen_piece(s) for _ in range(s.below(5)))[:255]
    return bytes([len(body)]) + body


def _cs(body: bytes) -> bytes:
    return bytes([len(body)]) + body


def gen_blob(s: Src) -> bytes:
    if s.below(2):
        return b"".join(gen_piece(s) for _ in range(s.below(6)))
    return s.take(s.below(41))


_MODES = [0, 1, 1, 1, 2]


def gen_fields(s: Src, rtype: int, npool: int, comp: bool):
    """RDATA field list of one record of ``rtype`` (well-formed for the type); names are pool indices"""
    def nm(plain=False):
        return ["n", s.below(npool), (s.pick(_MODES) if comp and not plain else 0)]

    lay = R.LAYOUT.get(rtype)
    if lay is not None:
        # two records in three look like real zone data (small numbers, ASCII text: no octet >= 0xC0 outside pointers),
        # the third has pointer look-alikes / arbitrary octets in its non-name fields
        real = s.below(3) < 2
        out = []
        for f in lay:
            if f == "n":
                out.append(nm())
            elif f == "cs":
                out.append(["b", _cs(_text(s, _LDH + " =;:.!^$\\", 0, 12).encode()) if real else gen_cs(s)])
            elif f == "rest":
                out.append(["b", bytes(x & 0x7F for x in s.take(s.below(12))) if real else gen_blob(s)])
            elif f == 1:
                out.append(["b", bytes([s.below(16) if real else s.u8()])])
            elif f == 2:
                out.append(["b", _be(s.pick(_SMALL16) if real else gen_u16(s), 2)])
            else:
                out.append(["b", _be(s.pick(_SMALL32) if real else gen_u32(s), 4)])
        return out
    if rtype == R.A:
        return [["b", s.pick([b"\xc0\x0c\xc0\x0c", b"\xc0\xa8\x00\x01", b"\x7f\x00\x00\x01"]) if s.below(3) == 0 else s.take(4)]]
    if rtype == R.AAAA:
        return [["b", b"\xc0\x0c" * 8 if s.below(4) == 0 else s.take(16)]]
    if rtype == R.TXT:
        return [["b", gen_cs(s)] for _ in range(1 + s.below(3))]
    if rtype == R.HINFO:
        return [["b", gen_cs(s)], ["b", gen_cs(s)]]
    if rtype in (R.HTTPS, R.SVCB):
        params = b""
        for _ in range(s.below(4)):
            v = gen_blob(s)
            params += _be(s.below(8), 2) + _be(len(v), 2) + v
        # RFC 9460: TargetName is never compressed
        return [["b", _be(gen_u16(s), 2)], nm(True), ["b", params]]
    if rtype == R.OPT:
        out = []
        for _ in range(s.below(4)):
            v = gen_blob(s)
            out.append(["b", _be(s.below(21), 2) + _be(len(v), 2) + v])
        return out
    if rtype == R.RRSIG:
        return [["b", s.take(18)], nm(True), ["b", gen_blob(s)]]
    if rtype == R.NSEC:
        return [nm(True), ["b", gen_blob(s)]]
    return [["b", gen_blob(s)]]


_SPECIAL = set(R.LAYOUT) | {R.A, R.AAAA, R.TXT, R.HINFO, R.HTTPS, R.SVCB, R.OPT, R.RRSIG, R.NSEC}
_SPECIAL_L = sorted(_SPECIAL)
_COMMON_T = [R.A, R.AAAA, R.CNAME, R.NS, R.PTR, R.MX, R.SOA, R.SRV, R.TXT, R.TXT, R.HTTPS, R.OPT, R.HINFO]
_OTHER_T = [R.NULL, R.DS, R.DNSKEY, R.CAA, R.WKS, R.X25, R.ISDN, R.KEY, 99, 255, 0, 0xFFFF]
_QTYPES = [1, 28, 5, 2, 12, 15, 6, 33, 16, 65, 255, 252]


def gen_type(s: Src, types=None) -> int:
    if types is not None:
        return s.pick(types)
    k = s.below(8)
    if k < 4:
        return s.pick(_COMMON_T)
    if k < 6:
        return s.pick(_SPECIAL_L)
    t = s.pick(_OTHER_T) if k == 6 else s.u16()
    return t if t not in _SPECIAL else 0xFE00 + t  # type codes without a layout known here: RDATA = arbitrary bytes


def gen_record(s: Src, npool: int, comp: bool, types=None):
    t = gen_type(s, types)
    return [s.below(npool), (s.pick(_MODES) if comp else 0), t, gen_class(s), gen_ttl(s), gen_fields(s, t, npool, comp)]


def gen_header(s: Src):
    mid = s.pick([0, 0xFFFF, 0xC00C]) if s.below(8) == 0 else s.u16()
    flags = s.u16()
    if s.below(2):  # what almost all real traffic looks like: opcode QUERY, Z = 0, small rcode
        flags &= 0x8783
    return {"id": mid, "qr": flags >> 15, "opcode": (flags >> 11) & 15, "aa": (flags >> 10) & 1, "tc": (flags >> 9) & 1,
            "rd": (flags >> 8) & 1, "ra": (flags >> 7) & 1, "z": (flags >> 4) & 7, "rcode": flags & 15}


def gen_message(s: Src, odd=True, comp=True, max_q=3, max_rr=4, qr=None, types=None):
    d = gen_header(s)
    if qr is not None:
        d["qr"] = qr
    pool = gen_pool(s, odd)
    n = len(pool)
    nq = min(max_q, s.pick([1, 1, 1, 1, 0, 2, 3, 1]))

    def rr():
        i, m, ty, c, tl, fs = gen_record(s, n, comp, types)
        return [pool[i], m, ty, c, tl, [[f[0], pool[f[1]], f[2]] if f[0] == "n" else f for f in fs]]

    d["q"] = [[pool[s.below(n)], (s.pick(_MODES) if comp else 0), (s.pick(_QTYPES) if s.below(4) else s.u16()),
               gen_class(s)] for _ in range(nq)]
    if d["qr"] == 0 and s.below(4):
        # plain query: no records except sometimes an OPT
        d["an"], d["ns"] = [], []
        d["ar"] = [rr_opt(s, pool, comp)] if s.below(2) else []
    else:
        d["an"] = [rr() for _ in range(s.below(max_rr + 1))]
        d["ns"] = [rr() for _ in range(s.below(max(1, max_rr // 2) + 1))]
        d["ar"] = [rr() for _ in range(s.below(max(1, max_rr // 2) + 1))]
    return d


def rr_opt(s: Src, pool, comp):
    return [[], 0, R.OPT, 1232 if s.below(2) else s.u16(), gen_ttl(s), gen_fields(s, R.OPT, len(pool), comp)]


ENTROPY = 1024


def message(lbl=None, allow_comp=True, max_q=3, max_rr=4, qr=None, types=None, odd=True):
    """strategy for a message description (one Hypothesis draw; see Src).  ``types``: restrict record types"""
    return st.binary(min_size=ENTROPY, max_size=ENTROPY).map(
        lambda b: gen_message(Src(b), odd, allow_comp, max_q, max_rr, qr, types))


def _be(n, size):
    return n.to_bytes(size, "big")


# ---------------------------------------------------------------- desc helpers
def to_wire_desc(d):
    """text-label desc -> desc for ref_dns.encode (wire labels)"""
    L = R.name_to_labels

    def fields(fs):
        return [["n", L(".".join(f[1])), f[2]] if f[0] == "n" else ["b", f[1]] for f in fs]

    out = {k: d[k] for k in ("id", "qr", "opcode", "aa", "tc", "rd", "ra", "z", "rcode")}
    out["q"] = [[L(".".join(n)), m, t, c] for n, m, t, c in d["q"]]
    for sec in ("an", "ns", "ar"):
        out[sec] = [[L(".".join(n)), m, t, c, tl, fields(fs)] for n, m, t, c, tl, fs in d[sec]]
    return out


def simple_query(mid, name, qtype=1, rd=1, opcode=0, klass_=1):
    return {"id": mid, "qr": 0, "opcode": opcode, "aa": 0, "tc": 0, "rd": rd, "ra": 0, "z": 0, "rcode": 0,
            "q": [[name, 0, qtype, klass_]], "an": [], "ns": [], "ar": []}
