"""Helper for checks that exercise a single mitmproxy addon inside a taddons.context.

`addon_context(*addons)` is a context manager yielding the taddons context.  Unlike a bare
`taddons.context` it removes the root-logger handler that `Master.__init__` installs (a bare context
leaks one handler per instance and the handler of a closed loop raises on the next log record).
"""
from __future__ import annotations

import contextlib
import logging


@contextlib.contextmanager
def addon_context(*addons, loadcore=True):
    from mitmproxy.test import taddons

    before = list(logging.getLogger().handlers)
    tctx = taddons.context(*addons, loadcore=loadcore)
    try:
        with tctx:
            yield tctx
    finally:
        try:
            tctx.master._legacy_log_events.uninstall()
        except Exception:
            pass
        root = logging.getLogger()
        for h in list(root.handlers):
            if h not in before:
                root.removeHandler(h)


_shared = None


@contextlib.contextmanager
def shared_addon_context(*addons):
    """Like addon_context, but the Master/Options/Core triple is created once per process and only the given addon
    instances are added for the duration of the block (about 10x cheaper).  On exit the addons are removed again and
    *every* option is put back to its default, so no option value leaks into the next case.  The yielded object is the
    taddons context; use `tctx.options.update(...)` (what mitmproxy itself does) or `tctx.configure(addon, ...)`."""
    global _shared
    from mitmproxy import ctx as mctx

    if _shared is None:
        from mitmproxy.test import taddons

        before = list(logging.getLogger().handlers)
        _shared = taddons.context()
        try:
            _shared.master._legacy_log_events.uninstall()
        except Exception:
            pass
        root = logging.getLogger()
        for h in list(root.handlers):
            if h not in before:
                root.removeHandler(h)
    tctx = _shared
    mctx.master = tctx.master
    mctx.options = tctx.options
    for a in addons:
        tctx.master.addons.add(a)
    try:
        yield tctx
    finally:
        for a in addons:
            try:
                tctx.master.addons.remove(a)
            except Exception:
                pass
        for o in tctx.options._options.values():
            if o.value is not _unset():
                o.reset()
        tctx.options.deferred.clear()


def _unset():
    from mitmproxy import optmanager

    return optmanager.unset
