"""ref_dns — independent reference DNS wire codec, written from the RFCs (no mitmproxy imports).

* RFC 1035 §4.1 message format, §4.1.4 name compression (pointers may appear wherever a name ends),
  §3.3 RDATA formats of the original types; RFC 1183 (RP, AFSDB, RT), RFC 2163 (PX), RFC 2535 (SIG, NXT),
  RFC 2782 (SRV), RFC 2915/3403 (NAPTR): the types for which RFC 3597 §4 says a receiver should expand
  compressed names in RDATA.  Every other type is opaque (RFC 3597): RDATA is a byte string.
* Names are tuples of raw byte labels (RFC 2181 §11: any octets), never text.  Comparison of names is
  ASCII-case-insensitive (RFC 4343) in ``key()``/``qkey()`` (``canon`` lower-cases A-Z only) and octet-exact in
  ``key_exact()``/``qkey_exact()`` -- a forwarder must preserve case (DNS 0x20), so checks assert both.

Decoded model
    Msg(id, qr, opcode, aa, tc, rd, ra, z, rcode, questions=[Q(name,type,klass)], sections=[[RR..],[RR..],[RR..]])
    RR(name, type, klass, ttl, rdata(raw wire bytes), fields=[("n", labels) | ("b", bytes) ...], ncomp, parsed)
        fields   semantic view of RDATA: names (expanded) and byte runs (adjacent byte fields merged)
        ncomp    number of names inside RDATA that used a compression pointer on the wire
        parsed   False when the type has a layout but RDATA does not follow it (then fields == [("b", rdata)])

Encoder
    ``encode(desc)`` takes a JSON-able description (see ``encode``) and emits wire bytes, compressing each name
    according to its own mode (0 none, 1 longest known suffix, 2 shortest known suffix), the way real servers do.
"""
from __future__ import annotations

import struct


class DecodeError(ValueError):
    pass


# ---------------------------------------------------------------- type table
A, NS, MD, MF, CNAME, SOA, MB, MG, MR, NULL, WKS, PTR, HINFO, MINFO, MX, TXT = range(1, 17)
RP, AFSDB, X25, ISDN, RT = 17, 18, 19, 20, 21
SIG, KEY, PX, AAAA, NXT, SRV, NAPTR = 24, 25, 26, 28, 30, 33, 35
OPT, DS, RRSIG, NSEC, DNSKEY, SVCB, HTTPS, CAA = 41, 43, 46, 47, 48, 64, 65, 257

_N, _U8, _U16, _U32, _CS, _REST = "n", 1, 2, 4, "cs", "rest"

#: RDATA layouts of the types whose names a receiver expands (RFC 3597 §4)
LAYOUT = {
    NS: [_N], MD: [_N], MF: [_N], CNAME: [_N], MB: [_N], MG: [_N], MR: [_N], PTR: [_N],
    SOA: [_N, _N, _U32, _U32, _U32, _U32, _U32],
    MINFO: [_N, _N],
    MX: [_U16, _N],
    RP: [_N, _N],
    AFSDB: [_U16, _N],
    RT: [_U16, _N],
    SIG: [_U16, _U8, _U8, _U32, _U32, _U32, _U16, _N, _REST],
    PX: [_U16, _N, _N],
    NXT: [_N, _REST],
    SRV: [_U16, _U16, _U16, _N],
    NAPTR: [_U16, _U16, _CS, _CS, _CS, _N],
}

TYPE_NAMES = {A: "A", NS: "NS", MD: "MD", MF: "MF", CNAME: "CNAME", SOA: "SOA", MB: "MB", MG: "MG", MR: "MR",
              NULL: "NULL", WKS: "WKS", PTR: "PTR", HINFO: "HINFO", MINFO: "MINFO", MX: "MX", TXT: "TXT", RP: "RP",
              AFSDB: "AFSDB", X25: "X25", ISDN: "ISDN", RT: "RT", SIG: "SIG", KEY: "KEY", PX: "PX", AAAA: "AAAA",
              NXT: "NXT", SRV: "SRV", NAPTR: "NAPTR", OPT: "OPT", DS: "DS", RRSIG: "RRSIG", NSEC: "NSEC",
              DNSKEY: "DNSKEY", SVCB: "SVCB", HTTPS: "HTTPS", CAA: "CAA"}


def type_name(t: int) -> str:
    return TYPE_NAMES.get(t, "TYPE%d" % t)


def has_names(t: int) -> bool:
    return t in LAYOUT


# ---------------------------------------------------------------- names
def canon(labels) -> tuple:
    """RFC 4343 case folding: only A-Z are folded"""
    return tuple(bytes(l).lower() if any(65 <= c <= 90 for c in l) else bytes(l) for l in labels)


def name_wire_len(labels) -> int:
    return sum(len(l) + 1 for l in labels) + 1


def decode_name(buf, off: int, limit: int | None = None):
    """Decode the (possibly compressed) name starting at ``off``.

    Returns (labels, next_off, used_pointer).  ``next_off`` is the offset after the name *at its original place*.
    ``limit``: the in-place part of the name (up to and including the first pointer or the root label) must end
    at or before this offset (RDATA boundary).  Raises DecodeError on truncation, reserved label types, pointer
    loops, or an expanded name longer than 255 octets."""
    n = len(buf)
    labels = []
    total = 1
    pos = off
    nxt = None
    seen = set()
    while True:
        if pos >= n:
            raise DecodeError("name runs past end of message at %d" % pos)
        b = buf[pos]
        if b & 0xC0 == 0xC0:
            if pos + 1 >= n:
                raise DecodeError("truncated pointer at %d" % pos)
            if nxt is None:
                nxt = pos + 2
            target = ((b & 0x3F) << 8) | buf[pos + 1]
            if target in seen:
                raise DecodeError("compression loop via %d" % target)
            seen.add(target)
            pos = target
            continue
        if b & 0xC0:
            raise DecodeError("reserved label type 0x%02x at %d" % (b, pos))
        if b == 0:
            if nxt is None:
                nxt = pos + 1
            break
        if pos + 1 + b > n:
            raise DecodeError("label runs past end of message at %d" % pos)
        total += b + 1
        if total > 255:
            raise DecodeError("name longer than 255 octets")
        labels.append(bytes(buf[pos + 1:pos + 1 + b]))
        pos += 1 + b
        # a label sequence re-entering an offset it came from through a pointer is caught by `seen` on the next pointer;
        # straight-line label runs always advance, so the loop terminates.
    if limit is not None and nxt > limit:
        raise DecodeError("name crosses RDATA boundary")
    return tuple(labels), nxt, bool(seen)


def encode_name_plain(labels) -> bytes:
    out = bytearray()
    for l in labels:
        if not 0 < len(l) < 64:
            raise ValueError("bad label length %d" % len(l))
        out.append(len(l))
        out += l
    out.append(0)
    return bytes(out)


class _Writer:
    def __init__(self):
        self.buf = bytearray()
        self.known = {}  # suffix (tuple of labels, exact case) -> offset of its first occurrence (< 0x4000)
        self.pointers = 0

    def name(self, labels, mode: int):
        """mode 0: no compression; 1: point at the longest suffix already in the message;
        2: point at the shortest non-root suffix already in the message"""
        labels = tuple(bytes(l) for l in labels)
        cut = None
        if mode:
            cands = [i for i in range(len(labels)) if labels[i:] in self.known]
            if cands:
                cut = cands[0] if mode == 1 else cands[-1]
        upto = len(labels) if cut is None else cut
        for i in range(upto):
            pos = len(self.buf)
            if pos < 0x4000 and labels[i:] not in self.known:
                self.known[labels[i:]] = pos
            l = labels[i]
            if not 0 < len(l) < 64:
                raise ValueError("bad label length %d" % len(l))
            self.buf.append(len(l))
            self.buf += l
        if cut is None:
            self.buf.append(0)
        else:
            self.buf += struct.pack("!H", 0xC000 | self.known[labels[cut:]])
            self.pointers += 1


# ---------------------------------------------------------------- model
class Q:
    __slots__ = ("name", "type", "klass")

    def __init__(self, name, type, klass):
        self.name, self.type, self.klass = name, type, klass

    def key(self):
        return (canon(self.name), self.type, self.klass)

    def __repr__(self):
        return "Q(%s %s %d)" % (show_name(self.name), type_name(self.type), self.klass)


class RR:
    __slots__ = ("name", "type", "klass", "ttl", "rdata", "fields", "ncomp", "parsed", "name_comp")

    def __init__(self, name, type, klass, ttl, rdata, fields, ncomp, parsed, name_comp=False):
        self.name, self.type, self.klass, self.ttl = name, type, klass, ttl
        self.rdata, self.fields, self.ncomp, self.parsed, self.name_comp = rdata, fields, ncomp, parsed, name_comp

    def head(self):
        return (canon(self.name), self.type, self.klass, self.ttl)

    def sem(self):
        """semantic RDATA: names case-folded, byte runs verbatim"""
        return tuple(("n", canon(v)) if k == "n" else ("b", v) for k, v in self.fields)

    def key(self):
        return self.head() + (self.sem(),)

    def __repr__(self):
        return "RR(%s %s %d ttl=%d %s)" % (show_name(self.name), type_name(self.type), self.klass, self.ttl,
                                           show_fields(self.fields))


class Msg:
    __slots__ = ("id", "qr", "opcode", "aa", "tc", "rd", "ra", "z", "rcode", "questions", "sections", "size")

    def header(self):
        return (self.id, self.qr, self.opcode, self.aa, self.tc, self.rd, self.ra, self.z, self.rcode)

    def key(self):
        return (self.header(), tuple(q.key() for q in self.questions),
                tuple(tuple(r.key() for r in s) for s in self.sections))

    def qkey(self):
        return tuple(q.key() for q in self.questions)

    # Names are case-insensitive for *matching* (RFC 4343) but a forwarder has to preserve their octets: resolvers using
    # 0x20 mixed-case randomisation compare the echoed question byte for byte.  The *_exact keys keep the wire case.
    def qkey_exact(self):
        return tuple((tuple(q.name), q.type, q.klass) for q in self.questions)

    def key_exact(self):
        return (self.header(), self.qkey_exact(),
                tuple(tuple((tuple(r.name), r.type, r.klass, r.ttl, tuple(r.fields)) for r in s) for s in self.sections))

    def __repr__(self):
        return "Msg(id=%d qr=%d op=%d aa=%d tc=%d rd=%d ra=%d z=%d rcode=%d q=%r an=%r ns=%r ar=%r)" % (
            self.header() + (self.questions,) + tuple(self.sections))


def show_name(labels) -> str:
    return ".".join(repr(bytes(l))[2:-1] for l in labels) + "."


def show_fields(fields) -> str:
    return "[" + " ".join(show_name(v) if k == "n" else v.hex() or "-" for k, v in fields) + "]"


def _merge(fields):
    out = []
    for k, v in fields:
        if k == "b":
            if not v:
                continue
            if out and out[-1][0] == "b":
                out[-1] = ("b", out[-1][1] + v)
                continue
        out.append((k, v))
    return out


def decode_rdata(buf, off: int, end: int, rtype: int):
    """-> (fields, ncomp, parsed)"""
    raw = bytes(buf[off:end])
    layout = LAYOUT.get(rtype)
    if layout is None:
        return ([("b", raw)] if raw else []), 0, True
    fields = []
    ncomp = 0
    pos = off
    try:
        for f in layout:
            if f == _N:
                labels, pos, comp = decode_name(buf, pos, end)
                ncomp += comp
                fields.append(("n", labels))
            elif f == _CS:
                if pos >= end:
                    raise DecodeError("truncated character-string")
                ln = buf[pos]
                if pos + 1 + ln > end:
                    raise DecodeError("character-string crosses RDATA boundary")
                fields.append(("b", bytes(buf[pos:pos + 1 + ln])))
                pos += 1 + ln
            elif f == _REST:
                fields.append(("b", bytes(buf[pos:end])))
                pos = end
            else:
                if pos + f > end:
                    raise DecodeError("truncated fixed field")
                fields.append(("b", bytes(buf[pos:pos + f])))
                pos += f
        if pos != end:
            raise DecodeError("RDATA longer than its layout")
    except DecodeError:
        return ([("b", raw)] if raw else []), 0, False
    return _merge(fields), ncomp, True


def decode(buf, allow_trailing: bool = False) -> Msg:
    buf = bytes(buf)
    if len(buf) < 12:
        raise DecodeError("short header")
    mid, flags, nq, nan, nns, nar = struct.unpack_from("!HHHHHH", buf, 0)
    m = Msg()
    m.id = mid
    m.qr = flags >> 15
    m.opcode = (flags >> 11) & 15
    m.aa = (flags >> 10) & 1
    m.tc = (flags >> 9) & 1
    m.rd = (flags >> 8) & 1
    m.ra = (flags >> 7) & 1
    m.z = (flags >> 4) & 7
    m.rcode = flags & 15
    m.questions = []
    m.sections = [[], [], []]
    pos = 12
    for _ in range(nq):
        name, pos, _c = decode_name(buf, pos)
        if pos + 4 > len(buf):
            raise DecodeError("truncated question")
        t, c = struct.unpack_from("!HH", buf, pos)
        pos += 4
        m.questions.append(Q(name, t, c))
    for sec, cnt in zip(m.sections, (nan, nns, nar)):
        for _ in range(cnt):
            name, pos, ncmp = decode_name(buf, pos)
            if pos + 10 > len(buf):
                raise DecodeError("truncated RR header")
            t, c, ttl, rdlen = struct.unpack_from("!HHIH", buf, pos)
            pos += 10
            end = pos + rdlen
            if end > len(buf):
                raise DecodeError("RDATA runs past end of message")
            fields, ncomp, parsed = decode_rdata(buf, pos, end, t)
            sec.append(RR(name, t, c, ttl, bytes(buf[pos:end]), fields, ncomp, parsed, ncmp))
            pos = end
    m.size = pos
    if pos != len(buf) and not allow_trailing:
        raise DecodeError("%d trailing bytes" % (len(buf) - pos))
    return m


# ---------------------------------------------------------------- encoder
def encode(desc) -> bytes:
    """desc = {"id","qr","opcode","aa","tc","rd","ra","z","rcode",
               "q":  [[labels, mode, type, class], ...],
               "an"/"ns"/"ar": [[labels, mode, type, class, ttl, fields], ...]}
       fields = [["n", labels, mode] | ["b", bytes], ...]      (RDLENGTH is computed)"""
    w = _Writer()
    flags = ((desc["qr"] & 1) << 15 | (desc["opcode"] & 15) << 11 | (desc["aa"] & 1) << 10 | (desc["tc"] & 1) << 9
             | (desc["rd"] & 1) << 8 | (desc["ra"] & 1) << 7 | (desc["z"] & 7) << 4 | (desc["rcode"] & 15))
    w.buf += struct.pack("!HHHHHH", desc["id"], flags, len(desc["q"]), len(desc["an"]), len(desc["ns"]),
                         len(desc["ar"]))
    for labels, mode, t, c in desc["q"]:
        w.name(labels, mode)
        w.buf += struct.pack("!HH", t, c)
    for sec in ("an", "ns", "ar"):
        for labels, mode, t, c, ttl, fields in desc[sec]:
            w.name(labels, mode)
            w.buf += struct.pack("!HHI", t, c, ttl)
            lenpos = len(w.buf)
            w.buf += b"\0\0"
            for f in fields:
                if f[0] == "n":
                    w.name(f[1], f[2])
                else:
                    w.buf += f[1]
            rdlen = len(w.buf) - lenpos - 2
            if rdlen > 0xFFFF:
                raise ValueError("RDATA too long")
            struct.pack_into("!H", w.buf, lenpos, rdlen)
    return bytes(w.buf)


def desc_key(desc):
    """what ``decode(encode(desc)).key()`` must be (self-test of this module, and the sender's meaning)"""
    hdr = (desc["id"], desc["qr"] & 1, desc["opcode"] & 15, desc["aa"] & 1, desc["tc"] & 1, desc["rd"] & 1,
           desc["ra"] & 1, desc["z"] & 7, desc["rcode"] & 15)
    qs = tuple((canon(l), t, c) for l, _m, t, c in desc["q"])
    secs = []
    for sec in ("an", "ns", "ar"):
        rows = []
        for labels, _m, t, c, ttl, fields in desc[sec]:
            if t in LAYOUT:
                fl = [("n", tuple(bytes(x) for x in f[1])) if f[0] == "n" else ("b", bytes(f[1])) for f in fields]
            else:  # opaque type: names inside it are just bytes (and must not be compressed by the sender)
                fl = [("b", encode_name_plain(f[1]) if f[0] == "n" else bytes(f[1])) for f in fields]
            fl = _merge(fl)
            rows.append((canon(labels), t, c, ttl, tuple(("n", canon(v)) if k == "n" else ("b", v) for k, v in fl)))
        secs.append(tuple(rows))
    return (hdr, qs, tuple(secs))


# ---------------------------------------------------------------- IDNA helpers (RFC 3490/3492), stdlib punycode only
def alabel(ulabel: str) -> bytes:
    """A-label of a U-label that is already in canonical (nameprep'd) form; ASCII labels are returned as they are"""
    try:
        return ulabel.encode("ascii")
    except UnicodeEncodeError:
        return b"xn--" + ulabel.encode("punycode")


def name_to_labels(name: str) -> tuple:
    """presentation name (labels separated by '.', no trailing dot, '' = root) -> wire labels"""
    if name == "":
        return ()
    return tuple(alabel(p) for p in name.split("."))


def tcp_frames(stream: bytes):
    """split a DNS-over-TCP byte stream into complete frames (RFC 1035 §4.2.2) -> (frames, rest)"""
    out = []
    pos = 0
    while len(stream) - pos >= 2:
        (ln,) = struct.unpack_from("!H", stream, pos)
        if len(stream) - pos - 2 < ln:
            break
        out.append(stream[pos + 2:pos + 2 + ln])
        pos += 2 + ln
    return out, stream[pos:]


# ---------------------------------------------------------------- input classification (for failure bucketing only)
def rr_hazard(rr: "RR") -> str:
    """what is unusual about this record's wire RDATA, most specific first:
       badname   the type has a layout but RDATA does not follow it (e.g. a name field that loops / is truncated)
       ptrlike   an octet >= 0xC0 occurs in RDATA other than as the start of a compression pointer ending a name
                 (numeric field, character-string, opaque data, or inside a label)
       multicomp two or more compressed names inside RDATA
       comp      one compressed name inside RDATA
       plain     none of these"""
    if not rr.parsed:
        return "badname"
    if rr.type in LAYOUT:
        if any(any(c >= 0xC0 for c in v) if k == "b" else any(c >= 0xC0 for l in v for c in l) for k, v in rr.fields):
            return "ptrlike"
    elif any(c >= 0xC0 for c in rr.rdata):
        return "ptrlike"
    if rr.ncomp >= 2:
        return "multicomp"
    return "comp" if rr.ncomp else "plain"
