"""E3 — in-memory HTTP/2 peers (independent hyper-h2 connection objects, separate from the ones inside mitmproxy).

hyper-h2 is trusted as a frame codec; what is tested is mitmproxy's mapping between streams and messages.
Outbound validation/normalisation is off so adversarial header blocks can be sent.
"""
from __future__ import annotations

import collections

import h2.config
import h2.connection
import h2.events
import h2.exceptions
import h2.settings


class StreamRec:
    def __init__(self):
        self.headers = None  # list[(name, value)] as received
        self.data = b""
        self.trailers = None
        self.ended = False
        self.reset = None
        self.informational = []
        self.events = []


class H2Peer:
    def __init__(self, client_side: bool, settings=None, validate_inbound=True):
        conf = h2.config.H2Configuration(client_side=client_side, header_encoding=False, validate_outbound_headers=False,
                                         normalize_outbound_headers=False, validate_inbound_headers=validate_inbound,
                                         normalize_inbound_headers=False)
        self.conn = h2.connection.H2Connection(conf)
        self.initial_settings = dict(settings or {})
        self.streams = collections.OrderedDict()
        self.order = []  # (stream id, event kind) in arrival order
        self.error = None
        self.terminated = None
        self.out = bytearray()  # bytes to put on the wire
        self.max_open = 0
        self.auto_ack = True
        self.unacked = []  # (length, stream id) of received DATA not yet acknowledged (lazy receivers)
        # manual flow control: stream windows are reopened per stream, the connection window only when at least
        # conn_threshold bytes are outstanding (what real receivers do: nghttp2, hyper-h2 update at half the window)
        self.manual_fc = False
        self.conn_debt = 0
        self.conn_threshold = 32768

    def start(self):
        self.conn.initiate_connection()
        if self.initial_settings:
            # a second SETTINGS frame right after the preface: h2 applies it once the peer has ACKed it
            self.conn.update_settings(self.initial_settings)
        self.flush()

    def flush(self) -> bytes:
        d = self.conn.data_to_send()
        self.out += d
        return d

    def take(self) -> bytes:
        self.flush()
        d = bytes(self.out)
        self.out.clear()
        return d

    def ack_all(self):
        """acknowledge everything received so far (emits WINDOW_UPDATE frames)"""
        if self.manual_fc:
            return self.ack_streams()
        for n, sid in self.unacked:
            try:
                self.conn.acknowledge_received_data(n, sid)
            except Exception:
                pass
        self.unacked = []
        self.flush()

    def ack_streams(self):
        """manual flow control: WINDOW_UPDATE for every stream that received data, connection-level only above the threshold"""
        per = collections.OrderedDict()
        for n, sid in self.unacked:
            per[sid] = per.get(sid, 0) + n
            self.conn_debt += n
        self.unacked = []
        for sid, n in per.items():
            try:
                if n:
                    self.conn.increment_flow_control_window(n, stream_id=sid)
            except Exception:
                pass  # stream already closed: nothing to reopen
        if self.conn_debt >= self.conn_threshold:
            try:
                self.conn.increment_flow_control_window(self.conn_debt)
                self.conn_debt = 0
            except Exception:
                pass
        self.flush()

    def rec(self, sid) -> StreamRec:
        if sid not in self.streams:
            self.streams[sid] = StreamRec()
        return self.streams[sid]

    def receive(self, data: bytes):
        if self.error is not None:
            return []
        try:
            evs = self.conn.receive_data(data)
        except h2.exceptions.ProtocolError as e:
            self.error = e
            self.flush()
            return []
        for ev in evs:
            self.on_event(ev)
        self.flush()
        return evs

    def on_event(self, ev):
        sid = getattr(ev, "stream_id", None)
        if isinstance(ev, (h2.events.RequestReceived, h2.events.ResponseReceived)):
            r = self.rec(sid)
            r.headers = list(ev.headers)
            self.order.append((sid, "headers"))
            try:
                self.max_open = max(self.max_open, self.conn.open_inbound_streams)
            except Exception:
                pass
        elif isinstance(ev, h2.events.InformationalResponseReceived):
            self.rec(sid).informational.append(list(ev.headers))
        elif isinstance(ev, h2.events.DataReceived):
            self.rec(sid).data += ev.data
            self.order.append((sid, "data"))
            if self.auto_ack and not self.manual_fc:
                self.conn.acknowledge_received_data(ev.flow_controlled_length, sid)
            else:
                self.unacked.append((ev.flow_controlled_length, sid))
        elif isinstance(ev, h2.events.TrailersReceived):
            self.rec(sid).trailers = list(ev.headers)
            self.order.append((sid, "trailers"))
        elif isinstance(ev, h2.events.StreamEnded):
            self.rec(sid).ended = True
            self.order.append((sid, "end"))
        elif isinstance(ev, h2.events.StreamReset):
            self.rec(sid).reset = ev.error_code
            self.order.append((sid, "reset"))
        elif isinstance(ev, h2.events.ConnectionTerminated):
            self.terminated = ev

    # -- sending helpers (all swallow local protocol errors: a generated action may be illegal at that point)
    def send_headers(self, sid, headers, end_stream=False):
        try:
            self.conn.send_headers(sid, headers, end_stream=end_stream)
        except (h2.exceptions.ProtocolError, KeyError) as e:
            return e
        finally:
            self.flush()

    def send_data(self, sid, data, end_stream=False):
        try:
            # respect flow control: send what fits, remember the rest is the caller's job
            n = min(len(data), self.conn.local_flow_control_window(sid), self.conn.max_outbound_frame_size)
            if n < len(data):
                return "window"
            self.conn.send_data(sid, data, end_stream=end_stream)
        except (h2.exceptions.ProtocolError, KeyError) as e:
            return e
        finally:
            self.flush()

    def end_stream(self, sid):
        try:
            self.conn.end_stream(sid)
        except (h2.exceptions.ProtocolError, KeyError) as e:
            return e
        finally:
            self.flush()

    def reset(self, sid, code=8):
        try:
            self.conn.reset_stream(sid, code)
        except (h2.exceptions.ProtocolError, KeyError) as e:
            return e
        finally:
            self.flush()

    def send_trailers(self, sid, headers):
        try:
            self.conn.send_headers(sid, headers, end_stream=True)
        except (h2.exceptions.ProtocolError, KeyError) as e:
            return e
        finally:
            self.flush()
