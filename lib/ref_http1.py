"""E2 — independent HTTP/1.1 message parser written from RFC 9112 (shares no code with mitmproxy or h11).

Used as the *downstream reader* of bytes mitmproxy forwards and as the classifier of what a peer sent.
Policy (every leniency below is one RFC 9112 explicitly allows a recipient; documented so that verdicts are
reproducible):
  * line terminator CRLF, bare LF accepted (9112 §2.2); empty line(s) before a start line skipped (§2.2)
  * request-line  = method SP request-target SP HTTP-version ; whitespace runs of SP/HTAB/VT/FF/CR accepted (§3)
  * field-line    = token ":" OWS value OWS ; anything else between name and ":" is invalid (§5.1)
  * obs-fold is replaced by one SP (§5.2); field values are compared after trimming ASCII whitespace
  * framing by §6.3 rules 1-7.  MUST-reject conditions are reported as Reject (never "repaired"):
      both Transfer-Encoding and Content-Length; Transfer-Encoding in an HTTP/1.0 message; request with
      Transfer-Encoding whose final coding is not chunked; chunked applied twice; unknown/unsplittable coding list
      element (empty element); invalid Content-Length; differing Content-Length values; invalid field name.
    Identical repeated Content-Length values / comma lists of identical values are accepted (§6.3 rule 5 MAY) and
    flagged 'cl-repeated'.
"""
from __future__ import annotations

import re

TOKEN = re.compile(rb"^[!#$%&'*+\-.^_`|~0-9A-Za-z]+$")
VERSION = re.compile(rb"^HTTP/[0-9]\.[0-9]$")
WS = b" \t\n\x0b\x0c\r"


class Msg:
    __slots__ = ("kind", "method", "target", "version", "status", "reason", "fields", "body", "trailers",
                 "framing", "flags", "interim", "raw_head", "close_delimited", "complete", "tunnel")

    def __init__(self, kind):
        self.kind = kind
        self.method = self.target = self.version = self.reason = None
        self.status = None
        self.fields = []
        self.body = b""
        self.trailers = []
        self.framing = "none"
        self.flags = set()
        self.interim = []
        self.complete = False
        self.tunnel = False

    def get_all(self, name: bytes):
        name = name.lower()
        return [v for n, v in self.fields if n.lower() == name]

    def __repr__(self):
        if self.kind == "req":
            return "Req(%r %r %r f=%r body=%r %s)" % (self.method, self.target, self.version, self.fields, self.body, self.framing)
        return "Resp(%r %r f=%r body=%r %s)" % (self.status, self.reason, self.fields, self.body, self.framing)


class Result:
    def __init__(self):
        self.msgs = []
        self.error = None  # reason the message at index len(msgs) is rejected
        self.incomplete = False  # stream ended inside message len(msgs)
        self.partial = None  # the incomplete message as far as it was read (head parsed) or None
        self.rest = b""  # bytes after the last complete message (tunnel payload / unread)

    def __repr__(self):
        return "Result(msgs=%r error=%r incomplete=%r rest=%r)" % (self.msgs, self.error, self.incomplete, self.rest[:60])


class Reject(Exception):
    pass


class _Need(Exception):
    pass


def norm_value(v: bytes) -> bytes:
    """comparison form of a field value: obs-fold -> SP, surrounding whitespace trimmed"""
    v = re.sub(rb"\r?\n[ \t]+", b" ", v)
    return v.strip(WS)


def _take_line(data: bytes, pos: int):
    i = data.find(b"\n", pos)
    if i < 0:
        raise _Need()
    line = data[pos:i]
    if line.endswith(b"\r"):
        line = line[:-1]
    return line, i + 1


def _read_head(data: bytes, pos: int):
    """returns (start_line, fields, newpos). Skips leading empty lines."""
    while True:
        line, npos = _take_line(data, pos)
        if line == b"":
            pos = npos
            continue
        break
    start = line
    pos = npos
    fields = []
    while True:
        line, pos = _take_line(data, pos)
        if line == b"":
            break
        if line[:1] in (b" ", b"\t"):
            if not fields:
                raise Reject("whitespace-before-first-field")
            n, v = fields[-1]
            fields[-1] = (n, v + b" " + line.strip(WS))
            continue
        if b":" not in line:
            raise Reject("field-line-without-colon")
        name, value = line.split(b":", 1)
        if not TOKEN.match(name):
            raise Reject("bad-field-name")
        fields.append((name, value.strip(WS)))
    return start, fields, pos


def _split_list(v: bytes):
    return [x.strip(b" \t") for x in v.split(b",")]


def _framing(msg: Msg, request_method: bytes | None):
    """RFC 9112 §6.3; returns ('none'|'cl'|'chunked'|'eof'|'tunnel', length)"""
    te = msg.get_all(b"transfer-encoding")
    cl = msg.get_all(b"content-length")
    if msg.kind == "resp":
        if request_method is not None and request_method == b"HEAD":
            return "none", 0
        if 100 <= msg.status <= 199 or msg.status in (204, 304):
            if te and (msg.status < 200 or msg.status == 204):
                msg.flags.add("te-on-bodyless-status")
            return "none", 0
        if request_method is not None and request_method == b"CONNECT" and 200 <= msg.status <= 299:
            return "tunnel", 0
    if te:
        if cl:
            raise Reject("te+cl")
        if msg.version == b"HTTP/1.0" or (msg.version and msg.version < b"HTTP/1.1"):
            raise Reject("te-http10")
        codings = []
        for v in te:
            codings += [c.lower() for c in _split_list(v)]
        if any(c == b"" or not TOKEN.match(c.split(b";")[0].strip()) for c in codings):
            raise Reject("te-malformed")
        if codings.count(b"chunked") > 1:
            raise Reject("te-chunked-twice")
        if len(te) > 1:
            msg.flags.add("te-repeated")
        if codings[-1] == b"chunked":
            return "chunked", None
        if b"chunked" in codings:
            raise Reject("te-chunked-not-final")
        if msg.kind == "req":
            raise Reject("te-not-chunked-request")
        return "eof", None
    if cl:
        vals = []
        for v in cl:
            vals += _split_list(v)
        if any(not re.fullmatch(rb"[0-9]+", x) for x in vals):
            raise Reject("cl-invalid")
        if len(set(int(x) for x in vals)) != 1:
            raise Reject("cl-differ")
        if len(vals) > 1:
            msg.flags.add("cl-repeated")
        return "cl", int(vals[0])
    if msg.kind == "req":
        return "none", 0
    return "eof", None


def _read_chunked(data: bytes, pos: int, msg: Msg):
    body = bytearray()
    while True:
        line, pos2 = _take_line(data, pos)
        size_part = line.split(b";", 1)[0].strip(b" \t")
        if not re.fullmatch(rb"[0-9A-Fa-f]+", size_part):
            raise Reject("bad-chunk-size")
        if b";" in line:
            msg.flags.add("chunk-ext")
        size = int(size_part, 16)
        pos = pos2
        if size == 0:
            break
        if len(data) < pos + size:
            raise _Need()
        body += data[pos:pos + size]
        pos += size
        if data[pos:pos + 2] == b"\r\n":
            pos += 2
        elif data[pos:pos + 1] == b"\n":
            pos += 1
        elif len(data) < pos + 2 and (data[pos:pos + 1] in (b"", b"\r")):
            raise _Need()
        else:
            raise Reject("chunk-data-not-followed-by-crlf")
    # trailer section
    while True:
        line, pos = _take_line(data, pos)
        if line == b"":
            break
        if b":" not in line:
            raise Reject("bad-trailer")
        n, v = line.split(b":", 1)
        if not TOKEN.match(n):
            raise Reject("bad-trailer-name")
        msg.trailers.append((n, v.strip(WS)))
    msg.body = bytes(body)
    return pos


def _parse_request_line(start: bytes, msg: Msg):
    parts = re.split(rb"[ \t\x0b\x0c\r]+", start.strip(WS))  # 9112 section 3: MAY ignore preceding/trailing whitespace
    if len(parts) != 3:
        raise Reject("request-line-not-3-parts")
    m, t, v = parts
    if not TOKEN.match(m):
        msg.flags.add("bad-method")  # not a framing matter: read leniently, flagged
    if not t:
        raise Reject("empty-target")
    if not VERSION.match(v):
        raise Reject("bad-version")
    msg.method, msg.target, msg.version = m, t, v


def _parse_status_line(start: bytes, msg: Msg):
    parts = start.split(None, 2)
    if len(parts) < 2:
        raise Reject("status-line")
    v, code = parts[0], parts[1]
    if not VERSION.match(v):
        raise Reject("bad-version")
    if not re.fullmatch(rb"[0-9]{3}", code):
        raise Reject("bad-status")
    msg.version, msg.status = v, int(code)
    msg.reason = parts[2] if len(parts) > 2 else b""


def _parse_stream(data: bytes, kind: str, methods, eof: bool) -> Result:
    res = Result()
    pos = 0
    mi = 0
    pending_interim = []
    while True:
        # skip trailing empty lines / detect end
        rest = data[pos:]
        if rest.strip(b"\r\n") == b"":
            if pending_interim and rest == b"":
                pass
            res.rest = b""
            if pending_interim:
                res.incomplete = True
                m = Msg(kind)
                m.interim = pending_interim
                res.partial = m
            return res
        msg = Msg(kind)
        try:
            start, fields, p = _read_head(data, pos)
            msg.fields = fields
            msg.raw_head = data[pos:p]
            method = None
            if kind == "req":
                _parse_request_line(start, msg)
            else:
                _parse_status_line(start, msg)
                if methods is not None:
                    if mi >= len(methods):
                        raise Reject("response-without-request")
                    method = methods[mi]
            how, length = _framing(msg, method)
            if kind == "resp" and 100 <= msg.status <= 199 and msg.status != 101:
                msg.framing = "none"
                msg.complete = True
                pending_interim.append(msg)
                pos = p
                continue
            msg.framing = how
            if how == "none":
                pass
            elif how == "tunnel":
                msg.tunnel = True
                msg.complete = True
                msg.interim = pending_interim
                res.msgs.append(msg)
                res.rest = data[p:]
                return res
            elif how == "cl":
                if len(data) < p + length:
                    res.partial = msg
                    msg.body = data[p:]
                    raise _Need()
                msg.body = data[p:p + length]
                p += length
            elif how == "chunked":
                res.partial = msg
                p = _read_chunked(data, p, msg)
                res.partial = None
            elif how == "eof":
                msg.body = data[p:]
                p = len(data)
                if not eof:
                    res.partial = msg
                    raise _Need()
            msg.complete = True
            msg.interim = pending_interim
            pending_interim = []
            res.msgs.append(msg)
            if kind == "resp":
                mi += 1
                if msg.status == 101:
                    msg.tunnel = True
                    res.rest = data[p:]
                    return res
            pos = p
            if how == "eof":
                return res
        except _Need:
            res.incomplete = True
            res.rest = data[pos:]
            if res.partial is None and msg.method is None and msg.status is None:
                res.partial = None
            return res
        except Reject as e:
            res.error = str(e)
            res.rest = data[pos:]
            return res


def parse_requests(data: bytes, eof: bool = True) -> Result:
    return _parse_stream(data, "req", None, eof)


def parse_responses(data: bytes, methods=None, eof: bool = True) -> Result:
    """methods: list of request methods (bytes) in the order the requests were sent, or None (no HEAD/CONNECT context)"""
    return _parse_stream(data, "resp", methods, eof)


def fields_equal(a, b) -> bool:
    """ordered field lists equal: names byte-equal, values equal after obs-fold/whitespace normalisation"""
    if len(a) != len(b):
        return False
    for (n1, v1), (n2, v2) in zip(a, b):
        if bytes(n1) != bytes(n2) or norm_value(bytes(v1)) != norm_value(bytes(v2)):
            return False
    return True
