"""In-process mitmweb harness shared by C46 and C47.

A real `WebMaster` + the real tornado `Application` behind a real `tornado.httpserver.HTTPServer` bound to an
ephemeral loopback port; requests are written as raw bytes over one keep-alive loopback connection by a tiny
HTTP/1.1 client (so arbitrary methods / malformed headers can be sent).  Everything runs on a private asyncio event
loop that is only stepped inside `WebEnv.request`, so nothing runs between cases.

Nothing here is an oracle: it only transports requests and exposes the observable state.
"""
from __future__ import annotations

import asyncio
import json
import logging

PASSWORD_MARK = "secretmark"  # lower-case marker planted in flows / options / events (never in static replies)


class Resp:
    __slots__ = ("status", "headers", "body", "raw_head")

    def __init__(self, status, headers, body, raw_head):
        self.status = status
        self.headers = headers  # list[(lower-name, value)]
        self.body = body
        self.raw_head = raw_head

    def get_all(self, name):
        name = name.lower()
        return [v for k, v in self.headers if k == name]

    def __repr__(self):
        return "Resp(%d, %d hdrs, body=%r)" % (self.status, len(self.headers), self.body[:120])


def make_flows():
    """Deterministic pool of flows of every type; ids match the route regex [0-9a-f-]+."""
    from mitmproxy.test import tflow
    from mitmproxy import dns

    out = []
    f = tflow.tflow(resp=True)
    f.id = "a1"
    f.request.path = "/secretmark-path"
    f.request.headers["x-secret"] = "secretmark-hdr"
    f.request.content = b"secretmark-reqbody\nline2"
    f.response.content = b"secretmark-respbody"
    f.live = False
    out.append(f)

    f = tflow.tflow(ws=True, resp=True)
    f.id = "a2"
    f.request.path = "/secretmark-ws"
    f.websocket.messages[0].content = b"secretmark-wsmsg"
    out.append(f)

    f = tflow.tflow(err=True)
    f.id = "a3"
    f.request.path = "/secretmark-err"
    f.live = False
    out.append(f)

    f = tflow.tflow(resp=True)
    f.id = "a4"
    f.request.path = "/secretmark-intercepted"
    f.intercept()
    out.append(f)

    f = tflow.ttcpflow()
    f.id = "b1"
    f.messages[0].content = b"secretmark-tcp"
    out.append(f)

    f = tflow.tudpflow()
    f.id = "b2"
    f.messages[0].content = b"secretmark-udp"
    out.append(f)

    f = tflow.tdnsflow(resp=True)
    f.id = "c1"
    f.request.questions[0].name = "secretmark.example"
    out.append(f)
    return out


class WebEnv:
    def __init__(self):
        logging.disable(logging.CRITICAL)
        self.loop = asyncio.new_event_loop()
        self._reader = None
        self._writer = None
        self.loop.run_until_complete(self._setup())

    # ------------------------------------------------------------------ setup / teardown
    async def _setup(self):
        import tornado.httpserver
        import tornado.netutil
        from mitmproxy import options
        from mitmproxy.tools.web import master as webmaster

        o = options.Options(http2=False)
        self.master = webmaster.WebMaster(o, with_termlog=False)
        self.app = self.master.app
        self.view = self.master.view
        self._webauth = self.master.addons.get("webauth")
        self.auth_cookie_name = self.app.settings["auth_cookie_name"]()
        self.cookie_secret = self.app.settings["cookie_secret"]
        self.xsrf_cookie_name = self.app.settings["xsrf_cookie_name"]
        socks = tornado.netutil.bind_sockets(0, "127.0.0.1")
        self.port = socks[0].getsockname()[1]
        self.server = tornado.httpserver.HTTPServer(self.app, max_buffer_size=2 ** 24)
        self.server.add_sockets(socks)
        self._base_options = {k: getattr(self.master.options, k) for k in self.master.options.keys()}
        self.reset()

    @property
    def password(self):
        """the token mitmweb generated for itself (changes whenever web_password is reconfigured to "")"""
        return self._webauth._password

    def close(self):
        async def _c():
            if self._writer is not None:
                self._writer.close()
            self.server.stop()
            await self.server.close_all_connections()
            await asyncio.sleep(0)

        self.loop.run_until_complete(_c())
        try:
            pending = [t for t in asyncio.all_tasks(self.loop) if not t.done()]
            for t in pending:
                t.cancel()
            if pending:
                self.loop.run_until_complete(asyncio.gather(*pending, return_exceptions=True))
        finally:
            self.loop.close()

    # ------------------------------------------------------------------ state
    def reset(self, flows=None):
        """Bring the master back to the pristine, marker-planted state."""
        from mitmproxy import log
        from mitmproxy.tools.web import app as webapp

        m = self.master
        cur = {k: getattr(m.options, k) for k in m.options.keys()}
        diff = {k: v for k, v in self._base_options.items() if cur.get(k) != v}
        if diff:
            m.options.update(**diff)
        self.view.clear()
        self.view.set_filter(None)
        self.flows = flows if flows is not None else make_flows()
        self.view.add(self.flows)
        m.events.data.clear()
        m.events.data.append(log.LogEntry("secretmark-event", "info"))
        cp = m.addons.get("clientplayback")
        while not cp.queue.empty():
            cp.queue.get_nowait()
        cp.inflight = None
        webapp.ClientConnection.connections.clear()

    def digest(self):
        """Everything a request could change, as a comparable value."""
        m = self.master
        flows = []
        for f in self.view._store.values():
            st = f.get_state()
            flows.append((f.id, st, bool(f.intercepted), getattr(f, "live", None)))
        shown = [f.id for f in self.view._view]
        opts = {k: o.current() for k, o in m.options._options.items()}
        events = tuple((e.msg, e.level) for e in m.events.data)
        cp = m.addons.get("clientplayback")
        from mitmproxy.tools.web import app as webapp

        return (
            flows,
            shown,
            opts,
            events,
            cp.queue.qsize(),
            len(webapp.ClientConnection.connections),
            getattr(self.view.focus.flow, "id", None),
            getattr(self.view.filter, "pattern", None),
            (self.view.order_reversed, self.view.get_order()),
            {k: dict(v) for k, v in self.view.settings._values.items()},
        )

    # ------------------------------------------------------------------ credentials helpers
    def signed(self, name, value, secret=None, clock=None):
        from tornado.web import create_signed_value

        kw = {}
        if clock is not None:
            kw["clock"] = clock
        return create_signed_value(secret=secret or self.cookie_secret, name=name, value=value, **kw).decode()

    def valid_auth_cookie(self):
        from mitmproxy.tools.web import app as webapp

        return self.signed(self.auth_cookie_name, webapp.AuthRequestHandler.AUTH_COOKIE_VALUE)

    # ------------------------------------------------------------------ transport
    def request(self, method, target, headers=(), body=b"", raw=None, timeout=20.0) -> Resp:
        """Send one request over loopback, return the parsed response.  `raw` overrides the serialisation."""
        if raw is None:
            lines = ["%s %s HTTP/1.1" % (method, target), "Host: 127.0.0.1:%d" % self.port]
            has_cl = False
            for k, v in headers:
                if k.lower() == "content-length":
                    has_cl = True
                lines.append("%s: %s" % (k, v))
            if not has_cl and (body or method not in ("GET", "HEAD", "OPTIONS")):
                lines.append("Content-Length: %d" % len(body))
            raw = ("\r\n".join(lines) + "\r\n\r\n").encode("latin-1") + body
        return self.loop.run_until_complete(asyncio.wait_for(self._roundtrip(raw, method), timeout))

    async def _connect(self):
        self._reader, self._writer = await asyncio.open_connection("127.0.0.1", self.port)

    async def _roundtrip(self, raw, method):
        for attempt in (0, 1):
            if self._writer is None or self._writer.is_closing() or self._reader.at_eof():
                await self._connect()
            try:
                self._writer.write(raw)
                await self._writer.drain()
                head = await self._reader.readuntil(b"\r\n\r\n")
                break
            except (asyncio.IncompleteReadError, ConnectionError) as e:
                # stale keep-alive connection closed by the server after the previous response: retry once
                self._writer.close()
                self._writer = None
                if attempt or (isinstance(e, asyncio.IncompleteReadError) and e.partial):
                    raise
        lines = head[:-4].split(b"\r\n")
        status = int(lines[0].split(b" ", 2)[1])
        hdrs = []
        for l in lines[1:]:
            k, _, v = l.partition(b":")
            hdrs.append((k.decode("latin-1").strip().lower(), v.decode("latin-1").strip()))
        d = dict(hdrs)
        body = b""
        close = d.get("connection", "").lower() == "close"
        if status == 101:
            # protocol switch (websocket): close the client side, let the server observe it
            close = True
        elif method == "HEAD" or status in (204, 304) or 100 <= status < 200:
            pass
        elif d.get("transfer-encoding", "").lower() == "chunked":
            while True:
                szl = await self._reader.readuntil(b"\r\n")
                n = int(szl.split(b";")[0].strip(), 16)
                if n == 0:
                    await self._reader.readuntil(b"\r\n")
                    break
                body += await self._reader.readexactly(n)
                await self._reader.readexactly(2)
        elif "content-length" in d:
            body = await self._reader.readexactly(int(d["content-length"]))
        else:
            body = await self._reader.read()
            close = True
        if close:
            self._writer.close()
            try:
                await self._writer.wait_closed()
            except Exception:
                pass
            self._writer = None
            # let the server notice the close (websocket on_close etc.)
            for _ in range(20):
                await asyncio.sleep(0)
        return Resp(status, hdrs, body, head)

    def settle(self, n=50):
        async def _s():
            for _ in range(n):
                await asyncio.sleep(0)

        self.loop.run_until_complete(_s())

    def put_json(self, target, doc, headers=()):
        body = json.dumps(doc).encode()
        return self.request("PUT", target, list(headers) + [("Content-Type", "application/json")], body)


def _freeze(o):
    if isinstance(o, dict):
        return tuple(sorted(((k, _freeze(v)) for k, v in o.items()), key=lambda kv: repr(kv[0])))
    if isinstance(o, (list, tuple)):
        return tuple(_freeze(x) for x in o)
    return o


_ENV = None


def env() -> WebEnv:
    """Process-wide environment (one per shard process); state is reset by the checks, not here."""
    global _ENV
    if _ENV is None:
        _ENV = WebEnv()
    return _ENV


def close_env():
    global _ENV
    if _ENV is not None:
        _ENV.close()
        _ENV = None
