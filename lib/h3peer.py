"""E3 — in-memory HTTP/3 peer: a plain aioquic H3Connection over a fake QUIC object (no UDP, no TLS).

The peer's QUIC "wire" is a list of (stream id, bytes, fin) tuples; the driver turns them into the
QuicStreamDataReceived events mitmproxy's HTTP/3 layer consumes and feeds mitmproxy's SendQuicStreamData commands back.
aioquic is trusted as codec (QPACK, frames); it is a separate instance from the one inside mitmproxy.
"""
from __future__ import annotations

import collections

from aioquic.h3.connection import H3Connection
from aioquic.h3.events import DataReceived, HeadersReceived
from aioquic.quic.configuration import QuicConfiguration
from aioquic.quic.events import StreamDataReceived, StreamReset

from driver import Driver
from h2peer import StreamRec
from mitmproxy.proxy.layers import quic as mquic


class FakeQuic:
    def __init__(self, is_client: bool):
        self.configuration = QuicConfiguration(is_client=is_client)
        self._quic_logger = None
        self._remote_max_datagram_frame_size = 0
        self._is_client = is_client
        self._next = [0, 1, 2, 3]
        self.wire = []  # (stream_id, data, fin)
        self.closed = None
        self.resets = []

    def get_next_available_stream_id(self, is_unidirectional: bool = False) -> int:
        idx = (int(is_unidirectional) << 1) | int(not self._is_client)
        sid = self._next[idx]
        self._next[idx] = sid + 4
        return sid

    def send_stream_data(self, stream_id, data, end_stream=False):
        self.wire.append((stream_id, bytes(data), bool(end_stream)))

    def reset_stream(self, stream_id, error_code):
        self.resets.append((stream_id, error_code))

    def stop_send(self, stream_id, error_code):
        self.resets.append((stream_id, error_code))

    def close(self, error_code=0, frame_type=None, reason_phrase=""):
        self.closed = (error_code, reason_phrase)


class H3Peer:
    def __init__(self, client_side: bool):
        self.quic = FakeQuic(client_side)
        self.h3 = H3Connection(self.quic)
        self.streams = collections.OrderedDict()
        self.error = None

    def rec(self, sid) -> StreamRec:
        if sid not in self.streams:
            self.streams[sid] = StreamRec()
        return self.streams[sid]

    def take(self):
        w, self.quic.wire = self.quic.wire, []
        return w

    def new_stream(self) -> int:
        return self.quic.get_next_available_stream_id()

    # -- receiving what mitmproxy wrote
    def receive(self, stream_id, data, fin):
        try:
            evs = self.h3.handle_event(StreamDataReceived(data=data, end_stream=fin, stream_id=stream_id))
        except Exception as e:  # aioquic closes the connection on protocol errors
            self.error = e
            return
        if self.quic.closed and self.error is None:
            self.error = RuntimeError("h3 peer closed the connection: %r" % (self.quic.closed,))
        for ev in evs:
            if isinstance(ev, HeadersReceived):
                r = self.rec(ev.stream_id)
                if r.headers is None:
                    r.headers = list(ev.headers)
                else:
                    r.trailers = list(ev.headers)
                if ev.stream_ended:
                    r.ended = True
            elif isinstance(ev, DataReceived):
                r = self.rec(ev.stream_id)
                r.data += ev.data
                if ev.stream_ended:
                    r.ended = True

    def receive_reset(self, stream_id, code):
        self.rec(stream_id).reset = code
        try:
            self.h3.handle_event(StreamReset(error_code=code, stream_id=stream_id))
        except Exception:
            pass

    # -- sending
    def send_headers(self, sid, headers, end_stream=False):
        try:
            self.h3.send_headers(sid, headers, end_stream=end_stream)
        except Exception as e:
            return e

    def send_data(self, sid, data, end_stream=False):
        try:
            self.h3.send_data(sid, data, end_stream=end_stream)
        except Exception as e:
            return e

    def send_trailers(self, sid, headers):
        return self.send_headers(sid, headers, end_stream=True)

    def end_stream(self, sid):
        return self.send_data(sid, b"", end_stream=True)


class QuicDriver(Driver):
    """Driver that also interprets the QUIC stream commands of the HTTP/3 layers."""

    def __init__(self, *a, **k):
        super().__init__(*a, **k)
        self.quic_peers = {}  # conn -> H3Peer
        self.quic_closed = {}

    def _command(self, cmd):
        if isinstance(cmd, mquic.SendQuicStreamData):
            self.trace.append(("quic-send", cmd.connection, cmd.stream_id, cmd.data, cmd.end_stream))
            p = self.quic_peers.get(cmd.connection)
            if p is not None:
                p.receive(cmd.stream_id, cmd.data, cmd.end_stream)
        elif isinstance(cmd, (mquic.ResetQuicStream, mquic.StopSendingQuicStream)):
            self.trace.append(("quic-reset", cmd.connection, cmd.stream_id, cmd.error_code))
            p = self.quic_peers.get(cmd.connection)
            if p is not None and isinstance(cmd, mquic.ResetQuicStream):
                p.receive_reset(cmd.stream_id, cmd.error_code)
        elif isinstance(cmd, mquic.CloseQuicConnection):
            # the QUIC layer below reports the close as QuicConnectionClosed (not a plain ConnectionClosed)
            from mitmproxy.connection import ConnectionState
            conn = cmd.connection
            self.quic_closed[conn] = (cmd.error_code, cmd.reason_phrase)
            self.trace.append(("close", conn, False))
            if conn.state is not ConnectionState.CLOSED:
                conn.state = ConnectionState.CLOSED
                if conn not in self.closed_delivered:
                    self.closed_delivered.add(conn)
                    self.queue.append(mquic.QuicConnectionClosed(conn, cmd.error_code, cmd.frame_type, cmd.reason_phrase))
        else:
            super()._command(cmd)

    def quic_close(self, conn, code=0, reason="peer closed (generated)"):
        """the QUIC peer of conn closed the connection (the QUIC layer below reports QuicConnectionClosed)"""
        from mitmproxy.connection import ConnectionState
        if conn in self.closed_delivered:
            return
        conn.state = ConnectionState.CLOSED
        self.closed_delivered.add(conn)
        self.feed(mquic.QuicConnectionClosed(conn, code, None, reason))

    def pump_quic(self, conn):
        """deliver everything the peer attached to conn has written"""
        from mitmproxy.connection import ConnectionState
        p = self.quic_peers[conn]
        moved = False
        for sid, data, fin in p.take():
            if conn.state & ConnectionState.CAN_READ and self.crashed is None:
                self.feed(mquic.QuicStreamDataReceived(conn, sid, data, fin))
                moved = True
        for sid, code in p.quic.resets:
            if conn.state & ConnectionState.CAN_READ and self.crashed is None:
                self.feed(mquic.QuicStreamReset(conn, sid, code))
        p.quic.resets = []
        return moved
