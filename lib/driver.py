"""E1 — sans-io layer driver.

Drives a real mitmproxy layer stack in memory.  It interprets commands the way
mitmproxy/proxy/server.py does (SendData / OpenConnection / CloseConnection / StartHook / RequestWakeup / Log)
but leaves every nondeterministic choice to the caller:

* segmentation: the caller decides how peer bytes are cut into DataReceived events (``recv``),
* completion order: blocking commands (hooks, OpenConnection) complete immediately by default, or are *held*
  (policy returns HOLD) and released later with ``release``,
* faults: ``close`` delivers ConnectionClosed at any point; ``conn_policy`` may fail a connect.

Everything observable is appended to ``trace`` as tuples so a check can state invariants over the history.
"""
from __future__ import annotations

import collections

from mitmproxy import connection, options
from mitmproxy.addons.proxyserver import Proxyserver
from mitmproxy.connection import ConnectionState
from mitmproxy.proxy import commands, context, events, layer

HOLD = "hold"


def make_options(**kw) -> options.Options:
    opts = options.Options()
    Proxyserver().load(opts)
    # options defined by other addons that layers read
    from mitmproxy.addons import core  # noqa: F401
    if kw:
        opts.update(**kw)
    return opts


def make_context(opts=None, transport="tcp", peername=("192.0.2.10", 50123), sockname=("127.0.0.1", 8080),
                 mode=None) -> context.Context:
    opts = opts or make_options()
    kw = {}
    if mode is not None:
        from mitmproxy.proxy.mode_specs import ProxyMode
        kw["proxy_mode"] = ProxyMode.parse(mode)
    client = connection.Client(peername=peername, sockname=sockname, timestamp_start=1605699329,
                               state=ConnectionState.OPEN, transport_protocol=transport, **kw)
    return context.Context(client, opts)


class Driver:
    def __init__(self, ctx: context.Context, top_layer: layer.Layer, hook_policy=None, conn_policy=None,
                 echo_close=True):
        self.ctx = ctx
        self.client = ctx.client
        self.layer = top_layer
        self.hook_policy = hook_policy  # callable(hook) -> None | HOLD
        self.conn_policy = conn_policy  # callable(OpenConnection) -> None (ok) | str (error) | HOLD
        self.echo_close = echo_close
        self.trace = []  # ("send", conn, data) ("hook", name, hookobj) ("open", conn) ("close", conn, half) ("log", lvl, msg) ("crash", exc) ("wakeup", cmd)
        self.sent = collections.defaultdict(bytearray)  # conn -> bytes written to it
        self.sent_chunks = collections.defaultdict(list)
        self.on_send = {}  # conn -> callable(data)   (in-memory peers)
        self.on_open = None  # callable(server_conn) after a successful open
        self.servers = []  # every Server for which OpenConnection was issued, in order
        self.held = []  # blocked commands whose completion is withheld
        self.wakeups = []
        self.queue = collections.deque()
        self.crashed = None
        self.closed_delivered = set()
        self._running = False
        self.logs = []

    # -- feeding
    def start(self):
        self.feed(events.Start())

    def feed(self, event):
        self.queue.append(event)
        if self._running:
            return
        self._running = True
        try:
            while self.queue and self.crashed is None:
                ev = self.queue.popleft()
                try:
                    for cmd in self.layer.handle_event(ev):
                        self._command(cmd)
                except Exception as e:  # what server.py logs as "mitmproxy has crashed!"
                    self.crashed = e
                    self.trace.append(("crash", e))
        finally:
            self._running = False

    def recv(self, conn, data: bytes):
        """peer bytes arrive on conn (one TCP segment / datagram)"""
        self.feed(events.DataReceived(conn, data))

    def close(self, conn, full=False):
        """the peer closed conn (TCP: read side; UDP or full=True: everything), as handle_connection does"""
        if conn in self.closed_delivered:
            return
        if not full and conn.transport_protocol == "tcp":
            conn.state &= ~ConnectionState.CAN_READ
        else:
            conn.state = ConnectionState.CLOSED
        self.closed_delivered.add(conn)
        self.feed(events.ConnectionClosed(conn))

    def release(self, cmd, reply=None):
        """deliver the completion of a held blocking command"""
        self.held.remove(cmd)
        if isinstance(cmd, commands.OpenConnection):
            self._complete_open(cmd, reply)
        else:
            self.feed(events.HookCompleted(cmd))

    def wake(self, cmd):
        self.wakeups.remove(cmd)
        self.feed(events.Wakeup(cmd))

    # -- command interpretation (mirrors ConnectionHandler.server_event)
    def _command(self, cmd):
        if isinstance(cmd, commands.OpenConnection):
            self.servers.append(cmd.connection)
            self.trace.append(("open", cmd.connection))
            res = self.conn_policy(cmd) if self.conn_policy else None
            if res == HOLD:
                self.held.append(cmd)
            else:
                self._complete_open(cmd, res)
        elif isinstance(cmd, commands.RequestWakeup):
            self.wakeups.append(cmd)
            self.trace.append(("wakeup", cmd))
        elif isinstance(cmd, commands.SendData):
            if cmd.connection.state & ConnectionState.CAN_WRITE:
                self.sent[cmd.connection] += cmd.data
                self.sent_chunks[cmd.connection].append(cmd.data)
                self.trace.append(("send", cmd.connection, cmd.data))
                cb = self.on_send.get(cmd.connection)
                if cb:
                    cb(cmd.data)
            else:
                self.trace.append(("send-after-close", cmd.connection, cmd.data))
        elif isinstance(cmd, commands.CloseConnection):
            conn = cmd.connection
            half = getattr(cmd, "half_close", False)
            self.trace.append(("close", conn, half))
            if conn.state is ConnectionState.CLOSED:
                return
            if half:
                if not conn.state & ConnectionState.CAN_WRITE:
                    return
                conn.state &= ~ConnectionState.CAN_WRITE
            else:
                conn.state = ConnectionState.CLOSED
            if conn.state is ConnectionState.CLOSED and self.echo_close and conn not in self.closed_delivered:
                # the handler task is cancelled and reports ConnectionClosed to the layer
                self.closed_delivered.add(conn)
                self.queue.append(events.ConnectionClosed(conn))
        elif isinstance(cmd, commands.StartHook):
            self.trace.append(("hook", cmd.name, cmd))
            res = self.hook_policy(cmd) if self.hook_policy else None
            if cmd.blocking:
                if res == HOLD:
                    self.held.append(cmd)
                else:
                    self.queue.append(events.HookCompleted(cmd))
        elif isinstance(cmd, commands.Log):
            self.logs.append((cmd.level, cmd.message))
        else:
            raise RuntimeError("unexpected command %r" % (cmd,))

    def _complete_open(self, cmd, err):
        conn = cmd.connection
        if err is None and not conn.address:
            err = "Cannot open connection, no hostname given."
        if err is None:
            conn.state = ConnectionState.OPEN
            conn.peername = (conn.address[0], conn.address[1])
            conn.sockname = ("192.0.2.1", 40000 + len(self.servers))
            conn.timestamp_start = 1605699330
            conn.timestamp_tcp_setup = 1605699331
            if self.on_open:
                self.on_open(conn)
            self.trace.append(("opened", conn))
        else:
            conn.error = err
            self.trace.append(("open-failed", conn, err))
        self.queue.append(events.OpenConnectionCompleted(cmd, err))
        if not self._running:
            self.feed_nothing()

    def feed_nothing(self):
        if self.queue:
            ev = self.queue.popleft()
            self.feed(ev)

    # -- observation helpers
    def out(self, conn) -> bytes:
        return bytes(self.sent[conn])

    def hooks(self, *names):
        return [(t[1], t[2]) for t in self.trace if t[0] == "hook" and (not names or t[1] in names)]

    def hook_names(self):
        return [t[1] for t in self.trace if t[0] == "hook"]


def crash_bucket(exc) -> str:
    from runner import repo_frame
    return "layer-crash:%s@%s" % (type(exc).__name__, repo_frame(exc))
