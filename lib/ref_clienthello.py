"""Independent ClientHello reference: builder + parser written from the RFCs (no mitmproxy / kaitai code).

RFC 5246 7.4.1.2 / RFC 8446 4.1.2 (ClientHello), RFC 6347 4.2.1 / 4.3.2 (DTLS record + handshake header, cookie),
RFC 6066 3 (server_name), RFC 7301 3.1 (ALPN), RFC 5246 6.2.1 (record layer, fragmentation of handshake messages).

Two levels of acceptance:
  * ``structure ok``  -- every length prefix is consistent with the bytes present (the reading is unambiguous)
  * ``strict``        -- additionally all the <min..max> constraints of the presentation language hold and no extension
                         type occurs twice.  A *strict* hello is what "well-formed ClientHello" means in the checks.
"""
from __future__ import annotations

import re


class RefError(Exception):
    """the bytes are not a structurally consistent ClientHello"""


class Incomplete(Exception):
    """more bytes are needed before anything can be said"""


# ------------------------------------------------------------------------------------------------ low level
class _Rd:
    def __init__(self, b: bytes):
        self.b = b
        self.i = 0

    def left(self) -> int:
        return len(self.b) - self.i

    def take(self, n: int) -> bytes:
        if n < 0 or self.i + n > len(self.b):
            raise RefError("truncated: need %d have %d" % (n, self.left()))
        r = self.b[self.i:self.i + n]
        self.i += n
        return r

    def u(self, n: int) -> int:
        return int.from_bytes(self.take(n), "big")

    def vec(self, lenbytes: int) -> bytes:
        return self.take(self.u(lenbytes))


def _u(n: int, width: int) -> bytes:
    return int(n).to_bytes(width, "big")


# ------------------------------------------------------------------------------------------------ hostnames
_LDH = re.compile(rb"[A-Za-z0-9_-]{1,63}\Z")


def hostname_class(name: bytes) -> str:
    """'clear' : an ASCII DNS host name every TLS stack reads the same way (RFC 6066: no trailing dot), no A-labels
       'alabel': like clear, but has a label starting with xn-- (punycode validity is a matter of IDNA, not of TLS)
       'odd'   : anything else (empty, trailing dot, empty label, long label, non-LDH byte, > 253 bytes)"""
    if not name or len(name) > 253:
        return "odd"
    labels = name.split(b".")
    if not all(_LDH.match(x) for x in labels):
        return "odd"
    if any(x[:4].lower() == b"xn--" for x in labels):
        return "alabel"
    return "clear"


# ------------------------------------------------------------------------------------------------ parser
def parse_body(body: bytes, dtls: bool = False) -> dict:
    """Parse the ClientHello *body* (what follows the handshake header).  Raises RefError when the structure is
    inconsistent.  Result keys: version, random, sid, cookie, ciphers, comp, extensions (list of (type, bytes) or None
    when the extensions block is absent), sni_names (list of (name_type, bytes)) or None, alpn (list) or None, strict."""
    r = _Rd(body)
    problems = []
    version = (r.u(1), r.u(1))
    random = r.take(32)
    sid = r.vec(1)
    if len(sid) > 32:
        problems.append("session id > 32")
    cookie = None
    if dtls:
        cookie = r.vec(1)
    cs = r.vec(2)
    if len(cs) % 2:
        raise RefError("odd cipher suite vector")
    if len(cs) < 2:
        problems.append("no cipher suite")
    ciphers = [int.from_bytes(cs[i:i + 2], "big") for i in range(0, len(cs), 2)]
    comp = r.vec(1)
    if len(comp) < 1:
        problems.append("no compression method")
    extensions = None
    sni_names = None
    alpn = None
    if r.left():
        block = r.vec(2)
        if r.left():
            raise RefError("bytes after the extensions block")
        extensions = []
        e = _Rd(block)
        seen = set()
        while e.left():
            typ = e.u(2)
            data = e.vec(2)
            if typ in seen:
                problems.append("duplicate extension %d" % typ)
            seen.add(typ)
            extensions.append((typ, data))
            if typ == 0 and sni_names is None:
                sni_names = _parse_sni(data, problems)
            elif typ == 16 and alpn is None:
                alpn = _parse_alpn(data, problems)
    return {
        "version": version, "random": random, "sid": sid, "cookie": cookie, "ciphers": ciphers, "comp": comp,
        "extensions": extensions, "sni_names": sni_names, "alpn": alpn, "strict": not problems, "problems": problems,
    }


def _parse_sni(data: bytes, problems: list) -> list:
    r = _Rd(data)
    lst = _Rd(r.vec(2))
    if r.left():
        raise RefError("bytes after server_name_list")
    names = []
    while lst.left():
        t = lst.u(1)
        names.append((t, lst.vec(2)))
    if not names:
        problems.append("empty server_name_list")
    if len(set(t for t, _ in names)) != len(names):
        problems.append("two server names of one type")
    if any(t == 0 and not n for t, n in names):
        problems.append("empty host_name")
    return names


def _parse_alpn(data: bytes, problems: list) -> list:
    r = _Rd(data)
    lst = _Rd(r.vec(2))
    if r.left():
        raise RefError("bytes after protocol_name_list")
    names = []
    while lst.left():
        names.append(lst.vec(1))
    if not names:
        problems.append("empty protocol_name_list")
    if any(not n for n in names):
        problems.append("empty protocol name")
    return names


def expected_sni(parsed: dict):
    """(kind, value): kind 'must' -> the SNI every reader agrees on is `value` (str or None);
                      kind 'may'  -> `value` is a set of acceptable answers."""
    names = parsed["sni_names"]
    if names is None:
        return "must", None
    hosts = [n for t, n in names if t == 0]
    if len(names) == 1 and len(hosts) == 1:
        c = hostname_class(hosts[0])
        if c == "clear":
            return "must", hosts[0].decode("ascii")
        acc = {None}
        try:
            acc.add(hosts[0].decode("ascii"))
        except UnicodeDecodeError:
            pass
        return "may", acc
    if not hosts:
        return "must", None
    acc = {None}
    for h in hosts[:1]:
        try:
            acc.add(h.decode("ascii"))
        except UnicodeDecodeError:
            pass
    return "may", acc


def expected_alpn(parsed: dict) -> list:
    return list(parsed["alpn"] or [])


def expected_extensions(parsed: dict) -> list:
    return [(t, d) for t, d in (parsed["extensions"] or [])]


# ------------------------------------------------------------------------------------------------ record layer
MAX_FRAGMENT = 16384


def read_stream(data: bytes, dtls: bool = False):
    """Reference reading of what a client sent first.
    Returns ("incomplete", None) | ("hello", parsed-dict, end_offset) | ("invalid", reason).
    TLS: handshake messages may be fragmented over several records of content type 22 (RFC 5246 6.2.1); the first
    handshake message must be a ClientHello (type 1).
    DTLS: each record of the first flight carries whole handshake fragments with their own 12-byte header; only an
    unfragmented ClientHello (fragment_offset 0, fragment_length == length) in the first record is read here."""
    hdr = 13 if dtls else 5
    off = 0
    msg = b""
    while True:
        if len(data) < off + hdr:
            return ("incomplete", None)
        h = data[off:off + hdr]
        if h[0] != 22:
            return ("invalid", "content type %d" % h[0])
        if dtls:
            if h[1] != 0xFE or h[2] not in (0xFF, 0xFD):  # DTLS 1.0 = {254,255}, DTLS 1.2 (and 1.3 legacy) = {254,253}
                return ("invalid", "record version")
        else:
            if h[1] != 3 or h[2] > 3:  # SSL 3.0 .. TLS 1.2; TLS 1.3 keeps 0x0301/0x0303 on the record layer
                return ("invalid", "record version")
        n = int.from_bytes(h[-2:], "big")
        if n == 0:
            return ("invalid", "empty handshake record")
        if len(data) < off + hdr + n:
            return ("incomplete", None)
        msg += data[off + hdr:off + hdr + n]
        off += hdr + n
        hh = 12 if dtls else 4
        if len(msg) >= hh:
            if msg[0] != 1:
                return ("invalid", "handshake type %d" % msg[0])
            ln = int.from_bytes(msg[1:4], "big")
            if dtls:
                frag_off = int.from_bytes(msg[6:9], "big")
                frag_len = int.from_bytes(msg[9:12], "big")
                if frag_off != 0 or frag_len != ln:
                    return ("fragmented-dtls", None)
            if len(msg) >= hh + ln:
                try:
                    return ("hello", parse_body(msg[hh:hh + ln], dtls), off)
                except RefError as e:
                    return ("invalid", str(e))
        if dtls:
            return ("invalid", "dtls record shorter than the message")


# ------------------------------------------------------------------------------------------------ builder
def build_ext_body(ext) -> bytes:
    """ext = [type, kind, payload]; kind 'raw': payload bytes; 'sni': list of [name_type, name]; 'alpn': list of names"""
    typ, kind, payload = ext
    if kind == "raw":
        return bytes(payload)
    if kind == "sni":
        lst = b"".join(_u(t, 1) + _u(len(n), 2) + bytes(n) for t, n in payload)
        return _u(len(lst), 2) + lst
    if kind == "alpn":
        lst = b"".join(_u(len(n), 1) + bytes(n) for n in payload)
        return _u(len(lst), 2) + lst
    raise ValueError(kind)


def build_body(spec: dict) -> bytes:
    """spec keys: dtls, version [maj, min], random (32 bytes), sid, cookie, ciphers [int], comp (bytes), exts (None or list)"""
    out = bytes(spec["version"]) + bytes(spec["random"]) + _u(len(spec["sid"]), 1) + bytes(spec["sid"])
    if spec.get("dtls"):
        out += _u(len(spec["cookie"]), 1) + bytes(spec["cookie"])
    cs = b"".join(_u(c, 2) for c in spec["ciphers"])
    out += _u(len(cs), 2) + cs + _u(len(spec["comp"]), 1) + bytes(spec["comp"])
    if spec["exts"] is not None:
        block = b""
        for ext in spec["exts"]:
            body = build_ext_body(ext)
            block += _u(ext[0], 2) + _u(len(body), 2) + body
        out += _u(len(block), 2) + block
    return out


def spec_truth(spec: dict) -> dict:
    """what the spec says the hello contains -- derived from the spec alone (ground truth for both parsers)"""
    exts = [(e[0], build_ext_body(e)) for e in (spec["exts"] or [])]
    sni_names = None
    alpn = None
    for e in spec["exts"] or []:
        if e[0] == 0 and e[1] == "sni" and sni_names is None:
            sni_names = [(t, bytes(n)) for t, n in e[2]]
        if e[0] == 16 and e[1] == "alpn" and alpn is None:
            alpn = [bytes(n) for n in e[2]]
    return {"ciphers": list(spec["ciphers"]), "extensions": exts, "sni_names": sni_names, "alpn": alpn}


def handshake_message(body: bytes, dtls: bool = False, msg_seq: int = 0) -> bytes:
    if dtls:
        return b"\x01" + _u(len(body), 3) + _u(msg_seq, 2) + _u(0, 3) + _u(len(body), 3) + body
    return b"\x01" + _u(len(body), 3) + body


def tls_records(msg: bytes, cuts, rec_version=(3, 1)) -> tuple[bytes, list]:
    """fragment a handshake message at the given cut offsets into records; returns (stream, record end offsets)"""
    cuts = sorted(set(c for c in cuts if 0 < c < len(msg)))
    pieces = []
    last = 0
    for c in cuts + [len(msg)]:
        piece = msg[last:c]
        while len(piece) > MAX_FRAGMENT:
            pieces.append(piece[:MAX_FRAGMENT])
            piece = piece[MAX_FRAGMENT:]
        pieces.append(piece)
        last = c
    out = b""
    ends = []
    for p in pieces:
        out += b"\x16" + bytes(rec_version) + _u(len(p), 2) + p
        ends.append(len(out))
    return out, ends


def dtls_record(msg: bytes, rec_version=(0xFE, 0xFD), epoch=0, seq=0) -> bytes:
    return b"\x16" + bytes(rec_version) + _u(epoch, 2) + _u(seq, 6) + _u(len(msg), 2) + msg
