"""Address classes from the IANA IPv4 / IPv6 Special-Purpose Address Registries (RFC 6890 and updates), transcribed by hand.
No use of Python's `ipaddress` classification properties (is_global / is_private / ...): only integer arithmetic on
prefixes.  `ipaddress` is used for *formatting* addresses only.

Every block carries two expectations for mitmproxy's block addon:
  G: what `block_global` must do with a source in the block: "refuse" (registry: globally reachable = True, and not a
     more-specific exception whose treatment changed between Python versions), "allow" (globally reachable = False),
     "any" (registry says N/A, or the block is a more-specific exception inside another block, or multicast);
  P: what `block_private` must do: "refuse" only for the unambiguous private ranges (RFC 1918, RFC 4193 ULA), "allow" for
     globally reachable blocks, "any" for every other special-purpose block (documentation, benchmarking, link-local,
     shared address space ...: whether they are "private" is not settled by the property text).
Addresses outside every block are ordinary global unicast (G=refuse, P=allow), except IPv6 outside 2000::/3, which is
unallocated/reserved space (any/any).
"""
from __future__ import annotations

V4 = [
    # prefix, len, name, G, P
    ("0.0.0.0", 8, "this-network", "allow", "any"),
    ("10.0.0.0", 8, "private-10", "allow", "refuse"),
    ("100.64.0.0", 10, "shared-cgn", "allow", "any"),
    ("127.0.0.0", 8, "loopback", "loopback", "loopback"),
    ("169.254.0.0", 16, "link-local", "allow", "any"),
    ("172.16.0.0", 12, "private-172", "allow", "refuse"),
    ("192.0.0.0", 24, "ietf-protocol", "any", "any"),
    ("192.0.0.0", 29, "ietf-ds-lite", "any", "any"),
    ("192.0.0.8", 32, "ietf-dummy", "any", "any"),
    ("192.0.0.9", 32, "pcp-anycast", "any", "any"),
    ("192.0.0.10", 32, "turn-anycast", "any", "any"),
    ("192.0.0.170", 31, "nat64-discovery", "any", "any"),
    ("192.0.2.0", 24, "test-net-1", "allow", "any"),
    ("192.31.196.0", 24, "as112-v4", "refuse", "allow"),
    ("192.52.193.0", 24, "amt", "refuse", "allow"),
    ("192.88.99.0", 24, "6to4-relay-deprecated", "any", "any"),
    ("192.168.0.0", 16, "private-192", "allow", "refuse"),
    ("192.175.48.0", 24, "as112-direct", "refuse", "allow"),
    ("198.18.0.0", 15, "benchmarking", "allow", "any"),
    ("198.51.100.0", 24, "test-net-2", "allow", "any"),
    ("203.0.113.0", 24, "test-net-3", "allow", "any"),
    ("224.0.0.0", 4, "multicast", "any", "any"),
    ("240.0.0.0", 4, "reserved", "allow", "any"),
    ("255.255.255.255", 32, "broadcast", "allow", "any"),
]

V6 = [
    ("::1", 128, "loopback", "loopback", "loopback"),
    ("::", 128, "unspecified", "allow", "any"),
    ("::", 8, "reserved-0000/8", "any", "any"),
    ("::ffff:0:0", 96, "v4-mapped", "mapped", "mapped"),
    ("64:ff9b::", 96, "nat64-wkp", "any", "any"),
    ("64:ff9b:1::", 48, "nat64-local", "any", "any"),
    ("100::", 64, "discard-only", "allow", "any"),
    ("100:0:0:1::", 64, "dummy-prefix", "any", "any"),
    ("2001::", 23, "ietf-protocol", "any", "any"),
    ("2001::", 32, "teredo", "any", "any"),
    ("2001:1::1", 128, "pcp-anycast", "any", "any"),
    ("2001:1::2", 128, "turn-anycast", "any", "any"),
    ("2001:2::", 48, "benchmarking", "any", "any"),
    ("2001:3::", 32, "amt", "any", "any"),
    ("2001:4:112::", 48, "as112-v6", "any", "any"),
    ("2001:10::", 28, "orchid-deprecated", "any", "any"),
    ("2001:20::", 28, "orchidv2", "any", "any"),
    ("2001:30::", 28, "drone-remote-id", "any", "any"),
    ("2001:db8::", 32, "documentation", "allow", "any"),
    ("2002::", 16, "6to4", "any", "any"),
    ("2620:4f:8000::", 48, "as112-direct", "refuse", "allow"),
    ("3fff::", 20, "documentation-2024", "any", "any"),
    ("5f00::", 16, "srv6-sids", "any", "any"),
    ("fc00::", 7, "unique-local", "allow", "refuse"),
    ("fe80::", 10, "link-local", "allow", "any"),
    ("fec0::", 10, "site-local-deprecated", "any", "any"),
    ("ff00::", 8, "multicast", "any", "any"),
]


def v4_int(s: str) -> int:
    a, b, c, d = (int(x) for x in s.split("."))
    return (a << 24) | (b << 16) | (c << 8) | d


def v6_int(s: str) -> int:
    """parse a plain (no zone, no embedded dotted quad) IPv6 literal"""
    if "::" in s:
        head, tail = s.split("::")
        h = [x for x in head.split(":") if x]
        t = [x for x in tail.split(":") if x]
        groups = h + ["0"] * (8 - len(h) - len(t)) + t
    else:
        groups = s.split(":")
    assert len(groups) == 8, s
    n = 0
    for g in groups:
        n = (n << 16) | int(g, 16)
    return n


_V4 = sorted(((v4_int(p), l, name, g, pr) for p, l, name, g, pr in V4), key=lambda t: -t[1])
_V6 = sorted(((v6_int(p), l, name, g, pr) for p, l, name, g, pr in V6), key=lambda t: -t[1])


def classify_v4(n: int):
    """(name, G, P) of the most specific registry block containing the IPv4 address n (an int)"""
    for base, l, name, g, p in _V4:
        if (n >> (32 - l)) == (base >> (32 - l)):
            return name, g, p
    return "global-unicast", "refuse", "allow"


def classify_v6(n: int):
    for base, l, name, g, p in _V6:
        if (n >> (128 - l)) == (base >> (128 - l)):
            if g == "mapped":
                name4, g4, p4 = classify_v4(n & 0xFFFFFFFF)
                return "mapped:" + name4, g4, p4
            return name, g, p
    if (n >> 125) == 1:  # 2000::/3
        return "global-unicast", "refuse", "allow"
    return "unallocated", "any", "any"


def blocks_v4():
    """(name, first, last) of every IPv4 registry block"""
    return [(name, base, base | ((1 << (32 - l)) - 1)) for base, l, name, g, p in _V4]


def blocks_v6():
    return [(name, base, base | ((1 << (128 - l)) - 1)) for base, l, name, g, p in _V6]


def expected(cls, block_global: bool, block_private: bool, local_mode: bool) -> str:
    """'refuse' | 'allow' | 'any' for an address of class (name, G, P)"""
    name, g, p = cls
    if g == "loopback" or local_mode:
        return "allow"
    if (block_global and g == "refuse") or (block_private and p == "refuse"):
        return "refuse"
    if (block_global and g == "any") or (block_private and p == "any"):
        return "any"
    return "allow"
