"""vcheck runner: seeds, shards, evidence, known findings, replay.

Check modules live in /verif/checks/cNN.py and expose

    PID, LEVEL, RULE, ASSUMPTIONS, QUICK_N, THOROUGH_N
    strategy(ctx) -> hypothesis strategy producing JSON-able cases      (optional)
    check_case(case, ctx) -> None      the oracle; reports with ctx.fail(bucket, msg)
    run(ctx)                           (optional) custom per-shard driver (e.g. exhaustive enumeration)

Exit codes: 0 property held on everything explored (KNOWN-FINDING lines allowed),
            1 a violation not listed in known_findings.json (VIOLATION line printed),
            2 harness error / inconclusive.
"""
from __future__ import annotations

import argparse
import collections
import hashlib
import importlib
import json
import math
import os
import re
import signal
import sys
import time
import traceback

ROOT = os.path.dirname(os.path.dirname(os.path.abspath(__file__)))
REPO = os.environ.get("VERIF_REPO", "/repo")
OUT = os.environ.get("VERIF_OUT") or ROOT  # evidence/ and replays/ are written below this directory


# ---------------------------------------------------------------- case encoding
def enc(o):
    """JSON-able encoding of a case (bytes -> {"$b": latin-1 text}, tuples -> lists)."""
    if isinstance(o, (bytes, bytearray)):
        return {"$b": bytes(o).decode("latin-1")}
    if isinstance(o, (list, tuple)):
        return [enc(x) for x in o]
    if isinstance(o, dict):
        return {str(k): enc(v) for k, v in o.items()}
    if isinstance(o, (set, frozenset)):
        return [enc(x) for x in sorted(o, key=repr)]
    if isinstance(o, float):
        if o != o or o in (float("inf"), float("-inf")):
            return {"$f": repr(o)}
        return o
    if isinstance(o, str):
        try:
            o.encode("utf-8")
            return o
        except UnicodeEncodeError:
            return {"$s": o.encode("utf-8", "surrogatepass").decode("latin-1")}
    if o is None or isinstance(o, (int, bool)):
        return o
    return {"$repr": repr(o)}


def dec(o):
    if isinstance(o, list):
        return [dec(x) for x in o]
    if isinstance(o, dict):
        if len(o) == 1:
            if "$b" in o:
                return o["$b"].encode("latin-1")
            if "$s" in o:
                return o["$s"].encode("latin-1").decode("utf-8", "surrogatepass")
            if "$f" in o:
                return float(o["$f"])
        return {k: dec(v) for k, v in o.items()}
    return o


def norm(o):
    """What a case looks like after an enc/dec round trip (so generation == replay)."""
    if isinstance(o, (list, tuple)):
        return [norm(x) for x in o]
    if isinstance(o, dict):
        return {str(k): norm(v) for k, v in o.items()}
    if isinstance(o, bytearray):
        return bytes(o)
    if isinstance(o, (set, frozenset)):
        return [norm(x) for x in sorted(o, key=repr)]
    return o


def short(o, limit=400):
    s = json.dumps(enc(o), ensure_ascii=True, sort_keys=True)
    return s if len(s) <= limit else s[:limit] + "...(%d chars)" % len(s)


def _digest(key) -> bytes:
    return hashlib.blake2b(repr(key).encode("utf-8", "backslashreplace"), digest_size=8).digest()


class BudgetHit(BaseException):
    pass


class HarnessError(Exception):
    """raise from a check when the harness (not mitmproxy) is at fault -> exit 2"""


def repo_frame(exc: BaseException) -> str:
    """innermost frame inside the repository's mitmproxy package, for crash bucketing"""
    tb = traceback.extract_tb(exc.__traceback__)
    where = "?"
    for fr in tb:
        fn = fr.filename.replace("\\", "/")
        if "/mitmproxy/" in fn and "/verif/" not in fn and "site-packages" not in fn:
            where = "%s:%s" % (fn.split("/mitmproxy/", 1)[1], fr.name)
    return where


# ---------------------------------------------------------------- per-shard context
class Ctx:
    def __init__(self, pid, tier, seed, shard=0, nshards=1, replay=False, known=()):
        self.pid = pid
        self.tier = tier
        self.seed = seed
        self.shard = shard
        self.nshards = nshards
        self.replay = replay
        h = hashlib.sha256(("%d/%s/%d" % (seed, pid, shard)).encode()).digest()
        self.shard_seed = int.from_bytes(h[:8], "big")
        self.evaluations = 0
        self.nontrivial = set()
        self.classes = collections.Counter()
        self.samples = []
        self.failures = {}  # bucket -> {"count": n, "cases": [(size, encoded case, msg)]}
        self.known = list(known)
        self.excluded_known = collections.Counter()
        self.cur_case = None
        self.exhaustive = None
        self.budget_hit = False
        self.notes = []
        self.extra = {}
        self.t_end = None
        self._sample_every = 1

    # -- sizing
    def n(self, quick, thorough):
        total = thorough if self.tier == "thorough" else quick
        scale = float(os.environ.get("VERIF_SCALE", "1"))
        return max(1, math.ceil(total * scale / self.nshards))

    @property
    def thorough(self):
        return self.tier == "thorough"

    # -- reporting
    def ev(self, k=1):
        self.evaluations += k
        if self.t_end is not None and (self.evaluations & 15) == 0 and time.monotonic() > self.t_end:
            self.budget_hit = True
            raise BudgetHit()

    def nt(self, key, cls=None):
        """register a non-trivial case by its canonical key (distinct keys are counted)"""
        self.nontrivial.add(_digest(key))
        if cls is not None:
            self.classes[str(cls)] += 1

    def cls(self, name, k=1):
        self.classes[str(name)] += k

    def sample(self, obj=None):
        """keep a few of the actual cases for the evidence file"""
        if obj is None:
            obj = self.cur_case
        if len(self.samples) < 4:
            self.samples.append(short(obj, 600))

    def known_match(self, bucket):
        for k in self.known:
            m = k.get("match", "exact")
            b = k["bucket"]
            if (m == "exact" and bucket == b) or (m == "prefix" and bucket.startswith(b)) or (
                m == "regex" and re.fullmatch(b, bucket)
            ):
                return k
        return None

    def fail(self, bucket, msg="", case=None):
        bucket = str(bucket)
        if case is None:
            case = self.cur_case
        k = self.known_match(bucket)
        if k is not None and not self.replay:
            self.excluded_known[k["id"]] += 1
            return
        e = enc(case)
        size = len(json.dumps(e))
        slot = self.failures.setdefault(bucket, {"count": 0, "cases": []})
        slot["count"] += 1
        slot["cases"].append((size, e, str(msg)[:2000]))
        slot["cases"].sort(key=lambda t: t[0])
        del slot["cases"][3:]

    def crash(self, exc, prefix="crash", case=None):
        detail = ""
        m = re.search(r"Unexpected event type at ([\w.]+): Expected .*? got (\w+)", str(exc))
        if m:  # mitmproxy.proxy.utils.expect: name the state and the event so distinct causes get distinct buckets
            detail = "[%s<-%s]" % (m.group(1), m.group(2))
        self.fail("%s:%s@%s%s" % (prefix, type(exc).__name__, repo_frame(exc), detail),
                  "".join(traceback.format_exception(type(exc), exc, exc.__traceback__))[-1800:], case)

    def result(self):
        return {
            "shard": self.shard,
            "evaluations": self.evaluations,
            "nontrivial": list(self.nontrivial),
            "classes": dict(self.classes),
            "samples": self.samples,
            "failures": self.failures,
            "excluded_known": dict(self.excluded_known),
            "exhaustive": self.exhaustive,
            "budget_hit": self.budget_hit,
            "notes": self.notes,
            "extra": self.extra,
        }


# ---------------------------------------------------------------- hypothesis glue
def hyp(ctx, strategy, fn, n, shrink_s=None):
    """Generate n cases from `strategy` (pure function of ctx.shard_seed), run fn(case, ctx) on each.
    fn reports oracle failures through ctx.fail; they are collected (the campaign does not stop at the
    first one) and every new bucket is shrunk afterwards."""
    import hypothesis
    from hypothesis import HealthCheck, Phase, given, settings

    before = set(ctx.failures)

    def body(case):
        case = norm(case)
        ctx.cur_case = case
        ctx.ev()
        if ctx.evaluations % ctx._sample_every == 0 and len(ctx.samples) < 4 and ctx.evaluations > 3:
            ctx._sample_every *= 7
            ctx.sample(case)
        fn(case, ctx)

    st = settings(max_examples=n, database=None, deadline=None, phases=[Phase.generate], derandomize=False,
                  suppress_health_check=list(HealthCheck), report_multiple_bugs=False)
    t = hypothesis.seed(ctx.shard_seed)(st(given(strategy)(body)))
    try:
        t()
    except BudgetHit:
        pass
    new = [b for b in ctx.failures if b not in before]
    if new and not os.environ.get("VERIF_NOSHRINK"):
        cap = shrink_s if shrink_s is not None else (120 if ctx.thorough else 25)
        for b in new[:4]:
            if cap > 0:
                _shrink(ctx, strategy, fn, b, cap)


def fast(ctx, build, fn, n, shrink_s=None, rnd_class=None):
    """Generate n cases with build(rnd) where rnd is a PRNG seeded from (ctx.shard_seed, case index) -- a pure function
    of VERIF_SEED.  Used where a grammar needs ~100 random choices per case and Hypothesis' per-draw overhead would
    dominate (measured 9 ms/case vs 2 ms execution).  The full case is saved, so replay does not need the PRNG;
    failures are minimised structurally with ddmin_json."""
    import random
    before = set(ctx.failures)
    cls = rnd_class or random.Random
    try:
        for i in range(n):
            rnd = cls((ctx.shard_seed << 24) ^ i)
            case = norm(build(rnd))
            ctx.cur_case = case
            ctx.ev()
            if ctx.evaluations % ctx._sample_every == 0 and len(ctx.samples) < 4 and ctx.evaluations > 3:
                ctx._sample_every *= 7
                ctx.sample(case)
            fn(case, ctx)
    except BudgetHit:
        pass
    new = [b for b in ctx.failures if b not in before]
    if new and not os.environ.get("VERIF_NOSHRINK"):
        cap = shrink_s if shrink_s is not None else (60 if ctx.thorough else 15)
        for b in new[:6]:
            slot = ctx.failures[b]
            size, e, msg = slot["cases"][0]
            small, smsg = ddmin_json(ctx, fn, b, dec(e), cap)
            if small is not None:
                es = enc(small)
                slot["cases"].insert(0, (len(json.dumps(es)), es, smsg))
                slot["cases"].sort(key=lambda t: t[0])
                del slot["cases"][3:]


def _candidates(o):
    """yield (path, replacement) simplifications of a JSON-like value; path = list of keys/indices; DELETE removes"""
    if isinstance(o, list):
        n = len(o)
        if n:
            step = n
            while step >= 1:
                for i in range(0, n, step):
                    yield [], ("delslice", i, min(n, i + step))
                step //= 2
        for i, x in enumerate(o):
            for p, r in _candidates(x):
                yield [i] + p, r
    elif isinstance(o, dict):
        for k in sorted(o):
            for p, r in _candidates(o[k]):
                yield [k] + p, r
    elif isinstance(o, (bytes, str)):
        if len(o):
            yield [], ("set", o[:0])
            if len(o) > 1:
                yield [], ("set", o[: len(o) // 2])
                yield [], ("set", o[len(o) // 2:])
                yield [], ("set", o[:-1])
                yield [], ("set", o[1:])
    elif isinstance(o, bool):
        if o:
            yield [], ("set", False)
    elif isinstance(o, int):
        if o:
            yield [], ("set", 0)
            if abs(o) > 1:
                yield [], ("set", o // 2)


def _apply(o, path, r):
    import copy
    o = copy.deepcopy(o)
    if not path:
        if r[0] == "set":
            return r[1]
        return o[: r[1]] + o[r[2]:]
    cur = o
    for k in path[:-1]:
        cur = cur[k]
    k = path[-1]
    if r[0] == "set":
        cur[k] = r[1]
    else:
        cur[k] = cur[k][: r[1]] + cur[k][r[2]:]
    return o


def ddmin_json(ctx, fn, bucket, case, cap_s):
    """greedy structural minimisation of a JSON-like case that keeps failing in `bucket`"""
    t_end = time.monotonic() + cap_s
    sub = Ctx(ctx.pid, ctx.tier, ctx.seed, ctx.shard, ctx.nshards, known=ctx.known)
    best_msg = [None]

    def fails(c):
        sub.failures.clear()
        sub.cur_case = c
        try:
            fn(c, sub)
        except BudgetHit:
            raise
        except Exception:
            return False  # a simplification the harness cannot interpret is not a reproduction
        if bucket in sub.failures:
            best_msg[0] = sub.failures[bucket]["cases"][0][2]
            return True
        return False

    try:
        if not fails(case):
            return None, None
        progress = True
        while progress and time.monotonic() < t_end:
            progress = False
            for path, r in list(_candidates(case)):
                if time.monotonic() > t_end:
                    break
                try:
                    cand = _apply(case, path, r)
                except Exception:
                    continue
                if cand == case:
                    continue
                if fails(cand):
                    case = cand
                    progress = True
                    break
        fails(case)
        return case, best_msg[0]
    except BudgetHit:
        return None, None


class _Found(Exception):
    pass


def _shrink(ctx, strategy, fn, bucket, cap_s):
    import hypothesis
    from hypothesis import HealthCheck, Phase, given, settings

    sub = Ctx(ctx.pid, ctx.tier, ctx.seed, ctx.shard, ctx.nshards, known=ctx.known)
    best = {}

    def body(case):
        case = norm(case)
        sub.cur_case = case
        sub.failures.clear()
        fn(case, sub)
        if bucket in sub.failures:
            size, e, msg = sub.failures[bucket]["cases"][0]
            if "size" not in best or size <= best["size"]:
                best.update(size=size, case=e, msg=msg)
            raise _Found()

    st = settings(max_examples=max(ctx.evaluations, 200) + 10, database=None, deadline=None,
                  phases=[Phase.generate, Phase.shrink], derandomize=False,
                  suppress_health_check=list(HealthCheck), report_multiple_bugs=False)
    t = hypothesis.seed(ctx.shard_seed)(st(given(strategy)(body)))

    def on_alarm(signum, frame):
        raise BudgetHit()

    old = signal.signal(signal.SIGALRM, on_alarm)
    signal.alarm(int(cap_s))
    try:
        t()
    except (_Found, BudgetHit):
        pass
    except BaseException:
        pass
    finally:
        signal.alarm(0)
        signal.signal(signal.SIGALRM, old)
    if "case" in best:
        slot = ctx.failures[bucket]
        slot["cases"].append((best["size"], best["case"], best["msg"]))
        slot["cases"].sort(key=lambda t: t[0])
        del slot["cases"][3:]


# ---------------------------------------------------------------- shard worker
def _load(pid):
    sys.path.insert(0, os.path.join(ROOT, "checks"))
    sys.path.insert(0, os.path.join(ROOT, "lib"))
    return importlib.import_module(pid.lower())


def _known_for(pid):
    out = []
    paths = [os.path.join(ROOT, "known_findings.json")]
    d = os.path.join(ROOT, "known_findings.d")
    if os.path.isdir(d):
        paths += [os.path.join(d, x) for x in sorted(os.listdir(d)) if x.endswith(".json")]
    for p in paths:
        if os.path.exists(p):
            with open(p) as f:
                kf = json.load(f)
            out += [k for k in kf.get("findings", []) if k["property"] == pid]
    return out


def default_run(mod, ctx):
    hyp(ctx, mod.strategy(ctx), mod.check_case, ctx.n(mod.QUICK_N, mod.THOROUGH_N))


def run_shard(args):
    pid, tier, seed, shard, nshards, budget_s = args
    try:
        import logging
        logging.disable(logging.CRITICAL)
        mod = _load(pid)
        ctx = Ctx(pid, tier, seed, shard, nshards, known=_known_for(pid))
        ctx.t_end = time.monotonic() + budget_s
        try:
            if hasattr(mod, "run"):
                mod.run(ctx)
            else:
                default_run(mod, ctx)
        except BudgetHit:
            ctx.budget_hit = True
        return ctx.result()
    except BaseException as e:  # harness error
        return {"shard": shard, "error": "".join(traceback.format_exception(type(e), e, e.__traceback__))}


# ---------------------------------------------------------------- main
def replay_file(mod, pid, path, tier="quick", seed=1, quiet=False):
    with open(path) as f:
        doc = json.load(f)
    case = dec(doc["case"])
    ctx = Ctx(pid, tier, seed, replay=True)
    fn = getattr(mod, "replay", None) or mod.check_case
    ctx.cur_case = case
    fn(case, ctx)
    return ctx, doc


def write_replay(pid, bucket, slot, seed, tier):
    d = os.path.join(OUT, "replays", pid)
    os.makedirs(d, exist_ok=True)
    name = re.sub(r"[^A-Za-z0-9_.-]+", "_", bucket)[:80] + "-" + hashlib.sha1(bucket.encode()).hexdigest()[:8]
    path = os.path.join(d, name + ".json")
    size, case, msg = slot["cases"][0]
    with open(path, "w") as f:
        json.dump({"property": pid, "bucket": bucket, "msg": msg, "count": slot["count"], "seed": seed,
                   "tier": tier, "case": case}, f, indent=1, sort_keys=True)
    return os.path.relpath(path, ROOT) if OUT == ROOT else path


def main(argv=None):
    ap = argparse.ArgumentParser()
    ap.add_argument("pid")
    ap.add_argument("--tier", default=os.environ.get("VERIF_TIER", "quick"), choices=["quick", "thorough"])
    ap.add_argument("--replay")
    ap.add_argument("--jobs", type=int, default=int(os.environ.get("VERIF_JOBS", "0")))
    a = ap.parse_args(argv)
    pid = a.pid.upper()
    try:
        seed = int(os.environ.get("VERIF_SEED", "1") or "1")
    except ValueError:
        seed = int.from_bytes(hashlib.sha256(os.environ["VERIF_SEED"].encode()).digest()[:4], "big")
    t0 = time.time()
    os.chdir(ROOT)
    import logging
    logging.disable(logging.CRITICAL)
    try:
        mod = _load(pid)
    except BaseException:
        traceback.print_exc()
        print("HARNESS-ERROR property=%s cannot import check" % pid)
        return 2

    if a.replay:
        try:
            ctx, doc = replay_file(mod, pid, a.replay, a.tier, seed)
        except BaseException:
            traceback.print_exc()
            return 2
        if ctx.failures:
            for b, slot in ctx.failures.items():
                print("replay fails: bucket=%s msg=%s" % (b, slot["cases"][0][2][:500]))
            print("VIOLATION property=%s replay=%s" % (pid, a.replay))
            return 1
        print("replay passes: property=%s %s" % (pid, a.replay))
        return 0

    known = _known_for(pid)
    nshards = getattr(mod, "SHARDS", 16)
    if a.jobs:
        jobs = a.jobs
    else:
        jobs = min(nshards, os.cpu_count() or 1)
    budget = getattr(mod, "BUDGET_S", (300, 1500))
    budget_s = float(os.environ.get("VERIF_BUDGET_S", budget[1] if a.tier == "thorough" else budget[0]))
    tasks = [(pid, a.tier, seed, k, nshards, budget_s) for k in range(nshards)]
    results = []
    if jobs == 1 or nshards == 1:
        results = [run_shard(t) for t in tasks]
    else:
        import multiprocessing as mp
        mpctx = mp.get_context(getattr(mod, "MP", "fork"))
        with mpctx.Pool(jobs, maxtasksperchild=1) as pool:
            results = pool.map(run_shard, tasks, chunksize=1)

    errors = [r for r in results if "error" in r]
    if errors:
        for r in errors[:3]:
            print("HARNESS-ERROR property=%s shard=%s\n%s" % (pid, r["shard"], r["error"]))
        return 2

    evaluations = sum(r["evaluations"] for r in results)
    nontrivial = set()
    classes = collections.Counter()
    excluded = collections.Counter()
    samples = []
    failures = {}
    notes = []
    extra = {}
    for r in results:
        nontrivial.update(bytes(x) for x in r["nontrivial"])
        classes.update(r["classes"])
        excluded.update(r["excluded_known"])
        for s in r["samples"]:
            if len(samples) < 5:
                samples.append(s)
        for b, slot in r["failures"].items():
            cur = failures.setdefault(b, {"count": 0, "cases": []})
            cur["count"] += slot["count"]
            cur["cases"].extend(tuple(c) for c in slot["cases"])
            cur["cases"].sort(key=lambda t: t[0])
            del cur["cases"][3:]
        notes.extend(r["notes"])
        for k, v in r["extra"].items():
            if isinstance(v, (int, float)) and not isinstance(v, bool):
                extra[k] = extra.get(k, 0) + v
            else:
                extra[k] = v
    exh = [r["exhaustive"] for r in results]
    exhaustive = all(x is True for x in exh) if any(x is not None for x in exh) else None
    budget_hit = any(r["budget_hit"] for r in results)

    # regression corpus and known-finding witnesses are replayed as plain cases (no generator library)
    rc = 0
    out_lines = []
    reg_dir = os.path.join(ROOT, "corpus", pid, "regressions")
    nreg = 0
    if os.path.isdir(reg_dir):
        for fn in sorted(os.listdir(reg_dir)):
            if not fn.endswith(".json"):
                continue
            p = os.path.join(reg_dir, fn)
            try:
                c, doc = replay_file(mod, pid, p, a.tier, seed)
            except BaseException:
                traceback.print_exc()
                print("HARNESS-ERROR property=%s regression %s" % (pid, fn))
                return 2
            nreg += 1
            evaluations += 1
            for b, slot in c.failures.items():
                cur = failures.setdefault(b, {"count": 0, "cases": []})
                cur["count"] += 1
                cur["cases"].extend(slot["cases"])
                cur["cases"].sort(key=lambda t: t[0])
    for k in known:
        w = k.get("witness")
        still = None
        if w and os.path.exists(os.path.join(ROOT, w)):
            try:
                c, doc = replay_file(mod, pid, os.path.join(ROOT, w), a.tier, seed)
                still = any(Ctx(pid, a.tier, seed, known=[k]).known_match(b) for b in c.failures)
                evaluations += 1
            except BaseException:
                traceback.print_exc()
                print("HARNESS-ERROR property=%s witness %s" % (pid, w))
                return 2
        if still or (still is None and excluded.get(k["id"])):
            out_lines.append("KNOWN-FINDING: property=%s %s [%s]" % (pid, k["text"], k["id"]))
        else:
            out_lines.append("note: known finding %s of %s did not reproduce in this run" % (k["id"], pid))

    violations = 0
    for b, slot in sorted(failures.items()):
        kk = Ctx(pid, a.tier, seed, known=known).known_match(b)
        if kk is not None:
            continue
        violations += 1
        path = write_replay(pid, b, slot, seed, a.tier)
        out_lines.append("  bucket=%s count=%d msg=%s" % (b, slot["count"], slot["cases"][0][2][:300].replace("\n", " | ")))
        out_lines.append("VIOLATION property=%s replay=%s" % (pid, path))
        rc = 1

    wall = time.time() - t0
    top = dict(sorted(classes.items(), key=lambda kv: -kv[1])[:120])
    cov = {
        "evaluations": int(evaluations),
        "distinct_nontrivial": len(nontrivial),
        "rule": mod.RULE,
        "samples": samples,
        "classes": top,
        "excluded_known": dict(excluded),
        "regressions_replayed": nreg,
        "shards": nshards,
        "budget_hit": budget_hit,
    }
    if exhaustive is not None:
        cov["exhaustive"] = bool(exhaustive) and not budget_hit
    if notes:
        cov["notes"] = sorted(set(notes))[:20]
    cov.update(extra)
    ev = {
        "property_id": pid,
        "tier": a.tier,
        "seed": seed,
        "level": mod.LEVEL,
        "coverage": cov,
        "assumptions": list(getattr(mod, "ASSUMPTIONS", [])),
        "wall_s": round(wall, 2),
        "violations": violations,
    }
    os.makedirs(os.path.join(OUT, "evidence"), exist_ok=True)
    with open(os.path.join(OUT, "evidence", pid + ".json"), "w") as f:
        json.dump(ev, f, indent=1, sort_keys=True)
        f.write("\n")
    for l in out_lines:
        print(l)
    print("%s tier=%s seed=%d evaluations=%d distinct_nontrivial=%d excluded_known=%d violations=%d wall=%.1fs%s" % (
        pid, a.tier, seed, evaluations, len(nontrivial), sum(excluded.values()), violations, wall,
        " (budget hit: inconclusive beyond explored cases)" if budget_hit else ""))
    if rc == 0 and (evaluations < 1 or len(nontrivial) < 2):
        print("HARNESS-ERROR property=%s generator starved (evaluations=%d nontrivial=%d)" % (pid, evaluations, len(nontrivial)))
        return 2
    return rc


if __name__ == "__main__":
    sys.exit(main())
