"""C03 extension — hook lifecycles of HTTP/2 and HTTP/3 clients.

An independent hyper-h2 (or aioquic H3) client peer opens 1-3 tagged streams on a real HttpLayer; the upstream is an
independent h2/h3 peer or a scripted HTTP/1 server (requests recognised with the reference parser).  The case is a merged
script of client actions; after every action the server side answers one part per ready stream, held hooks tick, and the
fault of the case (a peer closing its connection, a stream reset, a GOAWAY) is applied at its step.  The addon policy
per (stream, hook) is pass / kill / set a response / enable streaming / hold for k steps.

The function returns, per flow (keyed by the stream tag in the path), the list of hook names in firing order and the flow.
"""
from __future__ import annotations

import h2peer
import h3peer
import ref_http1
from driver import HOLD, make_context, make_options
from mitmproxy import http as mhttp
from mitmproxy.connection import ConnectionState
from mitmproxy.proxy.layers import http as http_layer
from mitmproxy.proxy.layers import quic as mquic

HOOKS = ["requestheaders", "request", "responseheaders", "response"]
ACTIONS = ["kill", "resp", "stream", "hold", "hold"]
FAULTS = ["client-close", "client-close-full", "server-close", "server-close-full", "server-goaway", "client-goaway"]


def build(rnd):
    n = rnd.int(1, 3)
    streams = []
    for i in range(n):
        streams.append({
            "method": rnd.pick(["GET", "POST", "POST", "PUT", "HEAD"]),
            "body": [rnd.pick([0, 1, 5, 200, 3000, 20000]) for _ in range(rnd.pick([0, 0, 1, 1, 2, 3]))],
            "end": rnd.pick(["end", "end", "end", "end", "reset", "never"]),
            "trailers": rnd.int(0, 6) == 0,
        })
    acts = []
    for i, s in enumerate(streams):
        seq = [["open", i]] + [["data", i, k] for k in range(len(s["body"]))]
        if s["end"] != "never":
            seq.append([s["end"], i])
        acts.append(seq)
    merged = []
    idx = [0] * n
    while any(idx[i] < len(acts[i]) for i in range(n)):
        i = rnd.pick([j for j in range(n) if idx[j] < len(acts[j])])
        merged.append(acts[i][idx[i]])
        idx[i] += 1
    for _ in range(rnd.pick([0, 1, 2, 4])):
        merged.insert(rnd.int(0, len(merged)), ["idle"])
    resp = []
    for i in range(n):
        resp.append({"status": rnd.pick([200, 200, 200, 404, 204, 304, 500]),
                     "body": [rnd.pick([0, 1, 7, 500, 9000, 30000]) for _ in range(rnd.pick([0, 1, 1, 2, 3]))],
                     "end": rnd.pick(["end", "end", "end", "end", "reset", "never"]),
                     "trailers": rnd.int(0, 6) == 0, "early": rnd.int(0, 4) == 0, "interim": rnd.int(0, 9) == 0})
    pol = []
    for _ in range(rnd.pick([0, 1, 1, 2, 3])):
        pol.append([rnd.int(0, n - 1), rnd.pick(HOOKS), rnd.pick(ACTIONS), rnd.pick([1, 1, 2, 4, 9])])
    server = rnd.pick(["h1", "h2", "h2", "h3"])
    return {
        "h2": True, "client": rnd.pick(["h2", "h2", "h2", "h3"]), "server": server,
        "streams": streams, "acts": merged, "resp": resp, "policy": pol,
        "fault": {"kind": rnd.pick(FAULTS), "at": rnd.int(0, len(merged) + 2)} if rnd.int(0, 3) else None,
        "connect_fail": rnd.int(0, 9) == 0,
        "cut": rnd.pick([0, 0, 1, 7, 100]),
        "opts": rnd.pick([{}, {}, {}, {"body_size_limit": "10"}, {"stream_large_bodies": "5"}, {"validate_inbound_headers": False},
                          {"body_size_limit": "4k", "stream_large_bodies": "3"}, {"store_streamed_bodies": True, "stream_large_bodies": "1"}]),
    }


def normalise(case):
    n = len(case["streams"])
    case["client"] = case["client"] if case["client"] in ("h2", "h3") else "h2"
    case["server"] = case["server"] if case["server"] in ("h1", "h2", "h3") else "h2"
    for s in case["streams"]:
        s["method"] = s["method"] if s["method"] in ("GET", "POST", "PUT", "HEAD") else "GET"
        s["end"] = s["end"] if s["end"] in ("end", "reset", "never") else "end"
    base = {"status": 200, "body": [], "end": "end", "trailers": False, "early": False, "interim": False}
    case["resp"] = (list(case["resp"]) + [dict(base) for _ in range(n)])[:n]
    for r in case["resp"]:
        for k, v in base.items():
            r.setdefault(k, v)
        r["status"] = r["status"] if r["status"] in (200, 404, 204, 304, 500) else 200
        r["end"] = r["end"] if r["end"] in ("end", "reset", "never") else "end"
    case["acts"] = [a for a in case["acts"] if a and a[0] in ("open", "data", "end", "reset", "idle")
                    and (a[0] == "idle" or (len(a) > 1 and isinstance(a[1], int) and 0 <= a[1] < n))]
    case["policy"] = [p for p in case.get("policy") or [] if len(p) == 4 and p[1] in HOOKS and p[2] in ACTIONS]
    f = case.get("fault")
    if f and f.get("kind") not in FAULTS:
        case["fault"] = None
    case["opts"] = case.get("opts") or {}
    if case["client"] == "h3":
        case["server"] = "h3"  # a QUIC client's upstream connection is QUIC as well (the transport is inherited)
    elif case["server"] == "h3":
        case["server"] = "h2"
    if case["server"] == "h1":
        # excluded by construction (recorded findings with their own buckets elsewhere): trailers on an HTTP/1 leg crash the
        # layer (C06-request-trailers-to-http1-crash, C01-h1-trailers-crash); an interim 1xx from an HTTP/1 server is
        # taken as the final response (C01-1xx-as-final)
        for s in case["streams"]:
            s["trailers"] = False
        for r in case["resp"]:
            r["trailers"] = False
            r["interim"] = False
    return case


class FlowRec:
    def __init__(self, flow, tag):
        self.flow = flow
        self.tag = tag
        self.hooks = []


class Run:
    pass


def run(case):
    opts = make_options(**{k: v for k, v in case["opts"].items()})
    cproto, sproto = case["client"], case["server"]
    mctx = make_context(opts, transport="udp" if cproto == "h3" else "tcp")
    mctx.client.alpn = cproto.encode()
    recs = {}
    order = []
    held = []
    policies = case["policy"]

    def policy(hook):
        flow = getattr(hook, "flow", None)
        if flow is None or not hasattr(flow, "request"):
            return None
        r = recs.get(id(flow))
        if r is None:
            path = flow.request.path or ""
            tag = int(path[2:]) if path.startswith("/s") and path[2:].isdigit() else None
            r = recs[id(flow)] = FlowRec(flow, tag)
            order.append(r)
        name = hook.name
        r.hooks.append(name)
        res = None
        for o, hname, action, arg in policies:
            if o != r.tag or hname != name:
                continue
            if action == "kill":
                if flow.killable:
                    flow.kill()
            elif action == "resp" and name in ("requestheaders", "request") and not flow.request.stream:
                flow.response = mhttp.Response.make(203, b"from-addon", {"X-Addon": "1"})
            elif action == "stream":
                if name == "requestheaders" and not flow.response:
                    flow.request.stream = True
                elif name == "responseheaders":
                    flow.response.stream = True
            elif action == "hold":
                held.append([hook, int(arg)])
                res = HOLD
        return res

    nopen = [0]

    def conn_policy(cmd):
        nopen[0] += 1
        if case.get("connect_fail") and nopen[0] == 1:
            return "connection refused (generated)"
        return None

    d = h3peer.QuicDriver(mctx, http_layer.HttpLayer(mctx, http_layer.HTTPMode.regular), hook_policy=policy, conn_policy=conn_policy)
    servers = {}  # conn -> peer (h2/h3) ; h1: conn -> {"answered": n, "progress": {...}}

    def on_open(conn):
        if sproto == "h2":
            conn.alpn = b"h2"
            p = h2peer.H2Peer(False)
            servers[conn] = p
            d.on_send[conn] = p.receive
            p.start()
        elif sproto == "h3":
            conn.alpn = b"h3"
            p = h3peer.H3Peer(False)
            servers[conn] = p
            d.quic_peers[conn] = p
        else:
            servers[conn] = {"done": 0, "stage": 0}

    d.on_open = on_open
    if cproto == "h2":
        c = h2peer.H2Peer(True)
        c.start()
        d.on_send[mctx.client] = c.receive
    else:
        c = h3peer.H3Peer(True)
        d.quic_peers[mctx.client] = c
    d.start()

    cut = case.get("cut") or 0

    def deliver(conn, data):
        if cut and len(data) > cut:
            # first bytes in small pieces, the rest whole (bounded cost)
            pieces = [data[i:i + cut] for i in range(0, min(len(data), cut * 6), cut)]
            rest = data[cut * 6:]
            if rest:
                pieces.append(rest)
        else:
            pieces = [data]
        for p in pieces:
            if d.crashed is None and conn.state & ConnectionState.CAN_READ:
                d.recv(conn, p)

    def pump():
        for _ in range(60):
            moved = False
            if d.crashed is not None:
                return
            if mctx.client.state & ConnectionState.CAN_READ:
                if cproto == "h3":
                    moved = d.pump_quic(mctx.client) or moved
                else:
                    data = c.take()
                    if data:
                        deliver(mctx.client, data)
                        moved = True
            for conn, p in list(servers.items()):
                if not (conn.state & ConnectionState.CAN_READ):
                    continue
                if isinstance(p, h3peer.H3Peer):
                    moved = d.pump_quic(conn) or moved
                elif isinstance(p, h2peer.H2Peer):
                    data = p.take()
                    if data:
                        deliver(conn, data)
                        moved = True
            if not moved:
                return

    n = len(case["streams"])
    sid = {}
    opened = set()
    served = {}  # (conn, server stream) -> stage

    def tag_of_headers(hs):
        for k, v in hs or []:
            if k == b":path" and v.startswith(b"/s") and v[2:].isdigit():
                return int(v[2:])
        return None

    def server_step():
        for conn, p in list(servers.items()):
            if not (conn.state & ConnectionState.CAN_WRITE) and not (conn.state & ConnectionState.CAN_READ):
                continue
            if isinstance(p, dict):
                h1_step(conn, p)
                continue
            if getattr(p, "error", None) is not None:
                continue
            for s, rec in list(p.streams.items()):
                t = tag_of_headers(rec.headers)
                if t is None or t >= n or rec.reset is not None:
                    continue
                r = case["resp"][t]
                if not rec.ended and not r["early"]:
                    continue
                stage = served.get((conn, s), 0)
                body = r["body"] if r["status"] not in (204, 304) else []
                total = 1 + len(body) + 1
                if stage >= total:
                    continue
                served[(conn, s)] = stage + 1
                if stage == 0:
                    if r["interim"]:
                        p.send_headers(s, [(b":status", b"103"), (b"link", b"</x>")])
                    nothing_more = not body and not r["trailers"] and r["end"] == "end"
                    p.send_headers(s, [(b":status", b"%d" % r["status"]), (b"x-rtag", b"%d" % t)], end_stream=nothing_more)
                    if nothing_more:
                        served[(conn, s)] = total
                elif stage <= len(body):
                    size = body[stage - 1]
                    if size:
                        p.send_data(s, bytes([97 + t]) * min(size, 16000))
                else:
                    if r["end"] == "reset":
                        p.reset(s) if isinstance(p, h2peer.H2Peer) else p.quic.reset_stream(s, 0x10c)
                    elif r["end"] == "end":
                        if r["trailers"]:
                            p.send_trailers(s, [(b"x-rtrail", b"%d" % t)])
                        else:
                            p.end_stream(s)
                    # "never": the response is left unfinished

    def h1_step(conn, st):
        if not (conn.state & ConnectionState.CAN_READ):
            return
        res = ref_http1.parse_requests(bytes(d.out(conn)), eof=False)
        k = st["done"]
        msg = res.msgs[k] if k < len(res.msgs) else (res.partial if k == len(res.msgs) else None)
        if msg is None or msg.target is None:
            return
        tgt = msg.target
        t = int(tgt[2:]) if tgt.startswith(b"/s") and tgt[2:].isdigit() else None
        if t is None or t >= n:
            return
        r = case["resp"][t]
        complete = k < len(res.msgs)
        if not complete and not r["early"]:
            return
        head_only = (msg.method or b"").upper() == b"HEAD"
        body = r["body"] if r["status"] not in (204, 304) and not head_only else []
        stage = st["stage"]
        total = 1 + len(body) + 1
        if stage >= total:
            if complete:
                st["done"], st["stage"] = k + 1, 0
            return
        st["stage"] = stage + 1
        if stage == 0:
            raw = b""
            if r["interim"]:
                raw += b"HTTP/1.1 103 Early Hints\r\nLink: </x>\r\n\r\n"
            raw += b"HTTP/1.1 %d X\r\nX-Rtag: %d\r\n" % (r["status"], t)
            if r["status"] not in (204, 304):
                raw += b"Transfer-Encoding: chunked\r\n" if not head_only else b"Content-Length: 5\r\n"
            raw += b"\r\n"
            d.recv(conn, raw)
            if not body and (r["status"] in (204, 304) or head_only):
                st["stage"] = total
        elif stage <= len(body):
            size = min(body[stage - 1], 16000)
            if size:
                d.recv(conn, b"%x\r\n" % size + bytes([97 + t]) * size + b"\r\n")
        else:
            if r["end"] == "reset":
                d.close(conn)
            elif r["end"] == "end":
                d.recv(conn, b"0\r\n" + (b"X-Rtrail: %d\r\n" % t if r["trailers"] else b"") + b"\r\n")

    def apply_fault(kind):
        if kind.startswith("client-close"):
            if mctx.client.state is not ConnectionState.CLOSED:
                if cproto == "h3":
                    d.quic_close(mctx.client)
                else:
                    d.close(mctx.client, full=kind.endswith("full"))
        elif kind.startswith("server-close"):
            for conn in list(d.servers):
                if conn.state is not ConnectionState.CLOSED and conn not in d.closed_delivered:
                    if sproto == "h3":
                        d.quic_close(conn)
                    else:
                        d.close(conn, full=kind.endswith("full"))
        elif kind == "server-goaway":
            for conn, p in servers.items():
                if isinstance(p, h2peer.H2Peer):
                    try:
                        p.conn.close_connection(error_code=0, last_stream_id=1)
                        p.flush()
                    except Exception:
                        pass
        elif kind == "client-goaway":
            if cproto == "h2":
                try:
                    c.conn.close_connection(error_code=0)
                    c.flush()
                except Exception:
                    pass

    def tick():
        for h in list(held):
            h[1] -= 1
            if h[1] <= 0 and h in held:
                held.remove(h)
                if h[0] in d.held and d.crashed is None:
                    d.release(h[0])

    pump()
    fault = case.get("fault")
    step = 0
    next_sid = [1]
    for act in case["acts"]:
        if d.crashed is not None:
            break
        if fault and fault["at"] == step:
            apply_fault(fault["kind"])
            pump()
        step += 1
        kind = act[0]
        if kind != "idle":
            i = act[1]
            st = case["streams"][i]
            if kind == "open" and i not in sid:
                if cproto == "h2":
                    s = next_sid[0]
                    next_sid[0] += 2
                else:
                    s = c.new_stream()
                sid[i] = s
                hdrs = [(b":method", st["method"].encode()), (b":scheme", b"http"), (b":authority", b"a.example"),
                        (b":path", b"/s%d" % i), (b"x-tag", b"%d" % i)]
                only = not st["body"] and st["end"] == "end" and not st["trailers"]
                if c.send_headers(s, hdrs, end_stream=only) is None:
                    opened.add(i)
                    if only:
                        st["_ended"] = True
            elif kind == "data" and i in opened and not st.get("_ended"):
                size = min(st["body"][act[2]], 16000) if act[2] < len(st["body"]) else 0
                if size:
                    c.send_data(sid[i], bytes([65 + i]) * size)
            elif kind == "end" and i in opened and not st.get("_ended"):
                st["_ended"] = True
                if st["trailers"]:
                    c.send_trailers(sid[i], [(b"x-trail", b"%d" % i)])
                else:
                    c.end_stream(sid[i])
            elif kind == "reset" and i in opened and not st.get("_ended"):
                st["_ended"] = True
                if cproto == "h2":
                    c.reset(sid[i])
                else:
                    c.quic.reset_stream(sid[i], 0x10c)
        pump()
        server_step()
        pump()
        tick()
        pump()
    if fault and fault["at"] >= step and d.crashed is None:
        # remaining server progress first, then the late fault
        for _ in range(fault["at"] - step):
            server_step()
            pump()
            tick()
        apply_fault(fault["kind"])
        pump()
    for _ in range(8):
        if d.crashed is not None:
            break
        server_step()
        pump()
        tick()
        pump()
    # ---- terminal state: everything closes, every held hook completes
    def close_all(full):
        if d.crashed is not None:
            return
        if mctx.client.state is not ConnectionState.CLOSED and (full or mctx.client.state & ConnectionState.CAN_READ):
            if cproto == "h3":
                d.quic_close(mctx.client)
            elif mctx.client not in d.closed_delivered:
                d.close(mctx.client, full=full)
            elif full:
                mctx.client.state = ConnectionState.CLOSED
        pump()
        for conn in list(d.servers):
            if conn.state is not ConnectionState.CLOSED and (full or conn.state & ConnectionState.CAN_READ):
                if sproto == "h3":
                    d.quic_close(conn)
                elif conn not in d.closed_delivered:
                    d.close(conn, full=full)
                elif full:
                    conn.state = ConnectionState.CLOSED

    close_all(False)
    guard = 0
    while d.held and d.crashed is None and guard < 50:
        guard += 1
        d.release(d.held[0])
    close_all(True)
    guard = 0
    while d.held and d.crashed is None and guard < 50:
        guard += 1
        d.release(d.held[0])
    out = Run()
    out.flows = order
    out.crashed = d.crashed
    out.driver = d
    out.client = c
    out.servers = servers
    return out
