"""flowgen — shared generator of mitmproxy flows (HTTP incl. WebSocket, TCP, UDP, DNS) for the verification suite.

Owner: flow-io checks (C36..C41).  Other checks may import it; the functions marked STABLE keep their
signature and meaning.

Idea: Hypothesis strategies produce JSON-able *descriptors* (dict/list/str/int/float/bool/None/bytes only, so a
case survives the runner's enc/dec and replays exactly); `build(desc)` turns a descriptor into a real flow object
using only public constructors / attribute assignment (never `from_state`/`set_state`, so that a descriptor is an
oracle-side description that is independent of the serialisation code under test).

STABLE API
----------
build(desc) -> mitmproxy.flow.Flow            construct a flow from a descriptor (see format below)
observe(flow, backup=True) -> dict            read every (serialised) attribute of a flow through plain attribute
                                              access into a descriptor-shaped, comparison-friendly dict (tuples ->
                                              lists, certificates -> PEM bytes, "backup" -> bool).
canon(desc) -> dict                           descriptor with all defaults filled in.
expected(desc) -> dict                        what observe(build(desc), backup=False) must return, computed from the
                                              descriptor alone (valid when desc["backup"] is None or []).
listify(x)                                    deep tuple->list conversion (for comparing get_state() results with
                                              states that went through tnetstring, which has no tuple type).
flows(kinds=("http","ws","tcp","udp","dns"), small=False, backup=True, pool=None)   strategy of descriptors
http_flow(), ws_flow(), tcp_flow(), udp_flow(), dns_flow()                 per-type strategies (same kwargs)
Pool(seed)                                    pre-sampled sub-descriptor pools (pass as pool=) for cheap generation
edits(kind)                                   strategy of edit operations valid for a flow of that kind
apply_edit(flow, op)                          apply one edit operation to a real flow (public attribute API only)
type_errors(flow) -> [str]                    attributes whose value does not have the declared type ([] == valid)
kind_of(desc), populated(desc)                classification helpers for evidence histograms
canon_repr(x)                                 dict-order independent repr (multiset comparison of states)
CERTS                                         three PEM certificates (CA, 2 leaves) used for certificate fields

Descriptor format (all keys optional except "type"; defaults in brackets)
------------------------------------------------------------------------
common:  type: "http"|"tcp"|"udp"|"dns"      id: str [fixed uuid]        live: bool [False]
         client: CONN   server: CONN          error: None | [msg:str, timestamp:float]
         intercepted: bool [False]            is_replay: None|"request"|"response"
         marked: str [""]   comment: str [""] metadata: dict[str, tnetstring-able value] [{}]
         ts: float  (timestamp_created)       backup: None | [EDIT, ...]   (flow.backup() is called, then the
                                                                            edits are applied, so _backup differs)
CONN:    peername/sockname: None|[host:str, port:int] or 4-element IPv6 form; id: str; transport: "tcp"|"udp";
         error: None|str; tls: bool; certs: [index into CERTS]; alpn: None|bytes; alpn_offers: [bytes];
         cipher: None|str; cipher_list: [str]; tls_version: None|str; sni: None|str;
         ts_start, ts_end, ts_tls: None|float
         client only: mitmcert: None|index; proxy_mode: str (full spec)   (peername/sockname/ts_start not None)
         server only: address: None|[host, port]; ts_tcp: None|float; via: None|[scheme, [host, port]]
http:    request: MSG + host:str port:int method,scheme,authority,path: bytes
         response: None | MSG + status_code:int reason:bytes
         websocket: None | {messages: [[opcode:1|2, from_client, content:bytes, ts:float, dropped, injected]],
                            closed_by_client: None|bool, close_code: None|int, close_reason: None|str, ts_end: None|float}
MSG:     http_version: bytes; headers: [[name:bytes, value:bytes]]; content: None|bytes; trailers: None|[[..]];
         ts_start: float; ts_end: None|float
tcp/udp: messages: [[from_client:bool, content:bytes, ts:float]]
dns:     request: DNSMSG; response: None|DNSMSG
DNSMSG:  id, query, op_code, aa, tc, rd, ra, reserved, rcode, questions: [[name,type,class]],
         answers/authorities/additionals: [[name,type,class,ttl,data:bytes]], ts: None|float

EDIT operations (lists; first element is the op name) — see apply_edit().
"""
from __future__ import annotations

import copy

from hypothesis import strategies as st

# ------------------------------------------------------------------------------------------------ constants
CERTS = [
    b'-----BEGIN CERTIFICATE-----\nMIIBQzCB66ADAgECAhQgw8mvEYdYiev5JAEJnkaUH5aRoTAKBggqhkjOPQQDAjAY\nMRYwFAYDVQQDDA12ZXJpZiB0ZXN0IENBMB4XDTI0MDEwMTAwMDAwMFoXDTM0MDEw\nMTAwMDAwMFowGDEWMBQGA1UEAwwNdmVyaWYgdGVzdCBDQTBZMBMGByqGSM49AgEG\nCCqGSM49AwEHA0IABOiVj1/0pRrtf3WzvIrId8k44uPy6CFIyzEUMQ03X/1doCKJ\n2kAQkZRtORxUxBYQXhTAGVnuTp8nAz743GuN1T6jEzARMA8GA1UdEwEB/wQFMAMB\nAf8wCgYIKoZIzj0EAwIDRwAwRAIgW0gN5YglCaOdqdvP03IC+naySIx+/VsZ6D9K\nTbSDeqMCIGb6EVMkfjSklkrYZIyRAGGa57Hc2PozOv5Pho906pWY\n-----END CERTIFICATE-----\n',
    b'-----BEGIN CERTIFICATE-----\nMIIBWTCB/6ADAgECAhQTaDAGakru1fogOQMOLYZt1ykHnTAKBggqhkjOPQQDAjAY\nMRYwFAYDVQQDDA12ZXJpZiB0ZXN0IENBMB4XDTI0MDEwMTAwMDAwMFoXDTM0MDEw\nMTAwMDAwMFowFjEUMBIGA1UEAwwLZXhhbXBsZS5jb20wWTATBgcqhkjOPQIBBggq\nhkjOPQMBBwNCAASX/13cxed1bGiQMP2KiKuSO3Zae8+d+d4ERRaEZ6k/4aThkCL4\n3fKqQOGCxLGXKjzK5aAQlqVJb4vDkA/8uLVYoykwJzAlBgNVHREEHjAcggtleGFt\ncGxlLmNvbYINKi5leGFtcGxlLmNvbTAKBggqhkjOPQQDAgNJADBGAiEAhzkFv5iQ\niDVhNYyhwcW5IXvItAH49eEkOXyqUIa6Y2gCIQCdm3bzOmHJkdLGNlFiRHdLBr70\nCVl/WpZ5nY8mpDEJtw==\n-----END CERTIFICATE-----\n',
    b'-----BEGIN CERTIFICATE-----\nMIIBRDCB6qADAgECAhR9uyxULaz8NnizOmevvLZ/U2KDkzAKBggqhkjOPQQDAjAY\nMRYwFAYDVQQDDA12ZXJpZiB0ZXN0IENBMB4XDTI0MDEwMTAwMDAwMFoXDTM0MDEw\nMTAwMDAwMFowEzERMA8GA1UEAwwIZG5zLnRlc3QwWTATBgcqhkjOPQIBBggqhkjO\nPQMBBwNCAATLU9xtqrWG4Pq4jY9SCe+GcBcWamJlYHkEIn3RpiMdl/284z07WnmE\njF1oQ1j6h7K+eH8uIgDmJGnCcU2nhMtRoxcwFTATBgNVHREEDDAKgghkbnMudGVz\ndDAKBggqhkjOPQQDAgNJADBGAiEA9DD9kLKJ1H64v2LbnGCxvdTGSwB3OdtEH3Kz\nQ5yohFECIQD2EBg4wlWruvy6f2c6J9+z85kZdEAChFr0dWulOLE+lQ==\n-----END CERTIFICATE-----\n',
]

PROXY_MODES = ["regular", "transparent", "socks5", "upstream:http://example.com:8080", "reverse:https://example.com",
               "reverse:dns://8.8.8.8", "dns", "wireguard", "local", "regular@8081", "reverse:tcp://h:1@127.0.0.1:9",
               "reverse:quic://h:3", "dns@53", "local:curl"]
TLS_VERSIONS = ["SSLv3", "TLSv1", "TLSv1.1", "TLSv1.2", "TLSv1.3", "DTLSv0.9", "DTLSv1", "DTLSv1.2", "QUICv1"]
VIA_SCHEMES = ["http", "https", "http3", "tls", "dtls", "tcp", "udp", "dns", "quic"]

DEFAULT_ID = "00000000-0000-4000-8000-000000000000"
T0 = 946681200.0

_CONN_DEFAULTS = dict(peername=None, sockname=None, id=DEFAULT_ID, transport="tcp", error=None, tls=False, certs=[],
                      alpn=None, alpn_offers=[], cipher=None, cipher_list=[], tls_version=None, sni=None,
                      ts_start=None, ts_end=None, ts_tls=None)
_CLIENT_DEFAULTS = dict(_CONN_DEFAULTS, peername=["127.0.0.1", 22], sockname=["", 0], ts_start=T0, mitmcert=None,
                        proxy_mode="regular")
_SERVER_DEFAULTS = dict(_CONN_DEFAULTS, address=None, ts_tcp=None, via=None)
_MSG_DEFAULTS = dict(http_version=b"HTTP/1.1", headers=[], content=b"", trailers=None, ts_start=T0, ts_end=None)
_REQ_DEFAULTS = dict(_MSG_DEFAULTS, host="example.com", port=80, method=b"GET", scheme=b"http", authority=b"",
                     path=b"/")
_RESP_DEFAULTS = dict(_MSG_DEFAULTS, status_code=200, reason=b"OK")
_WS_DEFAULTS = dict(messages=[], closed_by_client=None, close_code=None, close_reason=None, ts_end=None)
_DNS_DEFAULTS = dict(id=0, query=True, op_code=0, aa=False, tc=False, rd=False, ra=False, reserved=0, rcode=0,
                     questions=[], answers=[], authorities=[], additionals=[], ts=None)
_FLOW_DEFAULTS = dict(id=DEFAULT_ID, live=False, error=None, intercepted=False, is_replay=None, marked="", comment="",
                      metadata={}, ts=T0, backup=None)


def listify(x):
    """deep tuple -> list (STABLE)"""
    if isinstance(x, (list, tuple)):
        return [listify(i) for i in x]
    if isinstance(x, dict):
        return {k: listify(v) for k, v in x.items()}
    return x


def _fill(d, defaults):
    out = copy.deepcopy(defaults)
    for k, v in (d or {}).items():
        if k not in defaults:
            raise KeyError("flowgen: unknown descriptor key %r" % (k,))
        out[k] = copy.deepcopy(v)
    return out


# ------------------------------------------------------------------------------------------------ canon
def canon(desc):
    """descriptor with every default filled in == observe(build(desc)) (STABLE)"""
    t = desc["type"]
    out = {"type": t}
    for k, v in _FLOW_DEFAULTS.items():
        out[k] = copy.deepcopy(desc.get(k, v))
    out["client"] = _fill(desc.get("client"), _CLIENT_DEFAULTS)
    out["server"] = _fill(desc.get("server"), _SERVER_DEFAULTS)
    if t == "http":
        out["request"] = _fill(desc.get("request"), _REQ_DEFAULTS)
        out["response"] = None if desc.get("response") is None else _fill(desc["response"], _RESP_DEFAULTS)
        out["websocket"] = None if desc.get("websocket") is None else _fill(desc["websocket"], _WS_DEFAULTS)
    elif t in ("tcp", "udp"):
        out["messages"] = copy.deepcopy(desc.get("messages", []))
    elif t == "dns":
        out["request"] = _fill(desc.get("request"), _DNS_DEFAULTS)
        out["response"] = None if desc.get("response") is None else _fill(desc["response"], _DNS_DEFAULTS)
    else:
        raise KeyError("flowgen: unknown flow type %r" % (t,))
    extra = set(desc) - set(out)
    if extra:
        raise KeyError("flowgen: unknown descriptor keys %r" % (sorted(extra),))
    return listify(out)


def expected(desc):
    """observe(build(desc), backup=False) as predicted from the descriptor alone (STABLE)"""
    d = canon(desc)
    for c in ("client", "server"):
        d[c]["certs"] = [CERTS[i % len(CERTS)] for i in d[c]["certs"]]
    if d["client"]["mitmcert"] is not None:
        d["client"]["mitmcert"] = CERTS[d["client"]["mitmcert"] % len(CERTS)]
    d["backup"] = d["backup"] is not None
    return d


# ------------------------------------------------------------------------------------------------ build
_cert_cache = {}


def cert(i):
    from mitmproxy import certs
    if i not in _cert_cache:
        _cert_cache[i] = CERTS[i % len(CERTS)]
    # a fresh object per use: flows must not share mutable certificate objects
    return certs.Cert.from_pem(_cert_cache[i])


def _addr(a):
    return None if a is None else tuple(a)


def _conn_common(c):
    return dict(
        peername=_addr(c["peername"]), sockname=_addr(c["sockname"]), id=c["id"], transport_protocol=c["transport"],
        error=c["error"], tls=c["tls"], certificate_list=[cert(i) for i in c["certs"]], alpn=c["alpn"],
        alpn_offers=list(c["alpn_offers"]), cipher=c["cipher"], cipher_list=list(c["cipher_list"]),
        tls_version=c["tls_version"], sni=c["sni"], timestamp_start=c["ts_start"], timestamp_end=c["ts_end"],
        timestamp_tls_setup=c["ts_tls"])


def build_client(c):
    from mitmproxy import connection
    from mitmproxy.proxy.mode_specs import ProxyMode
    c = _fill(c, _CLIENT_DEFAULTS)
    return connection.Client(mitmcert=None if c["mitmcert"] is None else cert(c["mitmcert"]),
                             proxy_mode=ProxyMode.parse(c["proxy_mode"]), **_conn_common(c))


def build_server(c):
    from mitmproxy import connection
    c = _fill(c, _SERVER_DEFAULTS)
    via = None if c["via"] is None else (c["via"][0], tuple(c["via"][1]))
    return connection.Server(address=_addr(c["address"]), timestamp_tcp_setup=c["ts_tcp"], via=via, **_conn_common(c))


def _hdrs(h):
    from mitmproxy import http
    return None if h is None else http.Headers([(bytes(n), bytes(v)) for n, v in h])


def build_request(r):
    from mitmproxy import http
    r = _fill(r, _REQ_DEFAULTS)
    return http.Request(host=r["host"], port=r["port"], method=r["method"], scheme=r["scheme"], authority=r["authority"],
                        path=r["path"], http_version=r["http_version"], headers=_hdrs(r["headers"]), content=r["content"],
                        trailers=_hdrs(r["trailers"]), timestamp_start=r["ts_start"], timestamp_end=r["ts_end"])


def build_response(r):
    from mitmproxy import http
    r = _fill(r, _RESP_DEFAULTS)
    return http.Response(http_version=r["http_version"], status_code=r["status_code"], reason=r["reason"],
                         headers=_hdrs(r["headers"]), content=r["content"], trailers=_hdrs(r["trailers"]),
                         timestamp_start=r["ts_start"], timestamp_end=r["ts_end"])


def build_wsmsg(m):
    from mitmproxy import websocket
    typ, from_client, content, ts, dropped, injected = m
    return websocket.WebSocketMessage(typ, from_client, content, ts, dropped, injected)


def build_websocket(w):
    from mitmproxy import websocket
    w = _fill(w, _WS_DEFAULTS)
    return websocket.WebSocketData(messages=[build_wsmsg(m) for m in w["messages"]],
                                   closed_by_client=w["closed_by_client"], close_code=w["close_code"],
                                   close_reason=w["close_reason"], timestamp_end=w["ts_end"])


def build_dnsmsg(m):
    from mitmproxy import dns
    m = _fill(m, _DNS_DEFAULTS)
    return dns.DNSMessage(
        id=m["id"], query=m["query"], op_code=m["op_code"], authoritative_answer=m["aa"], truncation=m["tc"],
        recursion_desired=m["rd"], recursion_available=m["ra"], reserved=m["reserved"], response_code=m["rcode"],
        questions=[dns.Question(n, t, c) for n, t, c in m["questions"]],
        answers=[dns.ResourceRecord(*rr) for rr in m["answers"]],
        authorities=[dns.ResourceRecord(*rr) for rr in m["authorities"]],
        additionals=[dns.ResourceRecord(*rr) for rr in m["additionals"]],
        timestamp=m["ts"])


def build_error(e):
    from mitmproxy import flow
    return None if e is None else flow.Error(e[0], e[1])


def build(desc):
    """Construct the flow described by `desc` (STABLE).  Uses constructors and attribute assignment only."""
    from mitmproxy import dns, http, tcp, udp
    d = canon(desc)
    t = d["type"]
    cc, sc = build_client(d["client"]), build_server(d["server"])
    if t == "http":
        f = http.HTTPFlow(cc, sc, live=d["live"])
        f.request = build_request(d["request"])
        f.response = None if d["response"] is None else build_response(d["response"])
        f.websocket = None if d["websocket"] is None else build_websocket(d["websocket"])
    elif t == "tcp":
        f = tcp.TCPFlow(cc, sc, live=d["live"])
        f.messages = [tcp.TCPMessage(a, b, c) for a, b, c in d["messages"]]
    elif t == "udp":
        f = udp.UDPFlow(cc, sc, live=d["live"])
        f.messages = [udp.UDPMessage(a, b, c) for a, b, c in d["messages"]]
    else:
        f = dns.DNSFlow(cc, sc, live=d["live"])
        f.request = build_dnsmsg(d["request"])
        f.response = None if d["response"] is None else build_dnsmsg(d["response"])
    f.id = d["id"]
    f.error = build_error(d["error"])
    f.intercepted = d["intercepted"]
    f.is_replay = d["is_replay"]
    f.marked = d["marked"]
    f.comment = d["comment"]
    f.metadata = copy.deepcopy(d["metadata"])
    f.timestamp_created = d["ts"]
    if d["backup"] is not None:
        f.backup()
        for op in d["backup"]:
            apply_edit(f, op)
    return f


# ------------------------------------------------------------------------------------------------ observe
def _obs_conn(c):
    return dict(
        peername=listify(c.peername), sockname=listify(c.sockname), id=c.id, transport=c.transport_protocol,
        error=c.error, tls=c.tls, certs=[x.to_pem() for x in c.certificate_list], alpn=c.alpn,
        alpn_offers=list(c.alpn_offers), cipher=c.cipher, cipher_list=list(c.cipher_list), tls_version=c.tls_version,
        sni=c.sni, ts_start=c.timestamp_start, ts_end=c.timestamp_end, ts_tls=c.timestamp_tls_setup)


def _obs_hdrs(h):
    return None if h is None else [[n, v] for n, v in h.fields]


def _obs_msg(m):
    return dict(http_version=m.data.http_version, headers=_obs_hdrs(m.headers), content=m.raw_content,
                trailers=_obs_hdrs(m.trailers), ts_start=m.timestamp_start, ts_end=m.timestamp_end)


def _obs_dns(m):
    if m is None:
        return None
    rr = lambda l: [[r.name, r.type, r.class_, r.ttl, r.data] for r in l]  # noqa: E731
    return dict(id=m.id, query=m.query, op_code=m.op_code, aa=m.authoritative_answer, tc=m.truncation,
                rd=m.recursion_desired, ra=m.recursion_available, reserved=m.reserved, rcode=m.response_code,
                questions=[[q.name, q.type, q.class_] for q in m.questions], answers=rr(m.answers),
                authorities=rr(m.authorities), additionals=rr(m.additionals), ts=m.timestamp)


def observe(f, backup=True):
    """Read every serialised attribute of `f` by attribute access (STABLE).  Certificates appear as PEM bytes
    (canon() has indices: use observe(build(d)) for comparisons, or compare_desc()).  The key "backup" is
    True/False (whether a backup exists) plus "backup_state" (listified) when backup=True."""
    from mitmproxy import dns, http, tcp, udp
    out = dict(type=f.type, id=f.id, live=f.live, intercepted=f.intercepted, is_replay=f.is_replay, marked=f.marked,
               comment=f.comment, metadata=listify(copy.deepcopy(f.metadata)), ts=f.timestamp_created,
               error=None if f.error is None else [f.error.msg, f.error.timestamp])
    c = _obs_conn(f.client_conn)
    c["mitmcert"] = None if f.client_conn.mitmcert is None else f.client_conn.mitmcert.to_pem()
    c["proxy_mode"] = f.client_conn.proxy_mode.full_spec
    out["client"] = c
    s = _obs_conn(f.server_conn)
    s["address"] = listify(f.server_conn.address)
    s["ts_tcp"] = f.server_conn.timestamp_tcp_setup
    s["via"] = listify(f.server_conn.via)
    out["server"] = s
    if isinstance(f, http.HTTPFlow):
        r = f.request
        q = _obs_msg(r)
        q.update(host=r.data.host, port=r.data.port, method=r.data.method, scheme=r.data.scheme,
                 authority=r.data.authority, path=r.data.path)
        out["request"] = q
        if f.response is None:
            out["response"] = None
        else:
            p = _obs_msg(f.response)
            p.update(status_code=f.response.data.status_code, reason=f.response.data.reason)
            out["response"] = p
        if f.websocket is None:
            out["websocket"] = None
        else:
            w = f.websocket
            out["websocket"] = dict(
                messages=[[int(m.type), m.from_client, m.content, m.timestamp, m.dropped, m.injected] for m in w.messages],
                closed_by_client=w.closed_by_client, close_code=w.close_code, close_reason=w.close_reason,
                ts_end=w.timestamp_end)
    elif isinstance(f, (tcp.TCPFlow, udp.UDPFlow)):
        out["messages"] = [[m.from_client, m.content, m.timestamp] for m in f.messages]
    elif isinstance(f, dns.DNSFlow):
        out["request"] = _obs_dns(f.request)
        out["response"] = _obs_dns(f.response)
    out["backup"] = f._backup is not None
    if backup:
        out["backup_state"] = listify(f._backup)
    return out


# ------------------------------------------------------------------------------------------------ edits
def _msgs(f):
    from mitmproxy import http
    if isinstance(f, http.HTTPFlow):
        return None if f.websocket is None else f.websocket.messages
    return getattr(f, "messages", None)


def apply_edit(f, op):
    """Apply one edit operation through the public attribute API (STABLE).  Ops that do not apply to the flow at
    hand (e.g. a response edit while response is None) are no-ops, so every generated op is applicable.

    common: ["comment", s] ["marked", s] ["meta", key, value] ["meta_del", key] ["meta_inplace", key|index, value] (mutates the
              list/dict stored under key -- or under the index-th existing key -- in place) ["error", None|[msg, ts]]
            ["intercepted", b] ["is_replay", v] ["ts", x] ["client", attr, value] ["server", attr, value]
              (attr in sni, alpn, error, tls, cipher, timestamp_end, tls_version)
    http:   ["req", attr, value] / ["resp", attr, value]  attr in method, path, host, port, scheme, authority,
              http_version, content (raw), status_code, reason, timestamp_start, timestamp_end (resp has the
              response subset); ["req_headers", [[n,v]..]] ["resp_headers", ..] ["req_hadd", n, v] ["resp_hadd", n, v]
            ["req_hdel", i] ["resp_hdel", i]   (i modulo number of fields) ["req_trailers", None|[[n,v]]]
            ["resp_trailers", ..] ["req_tadd", n, v] ["resp_tadd", n, v] ["req_hadd_inplace", n, v] ["resp_hadd_inplace", n, v]
              (Headers.add on the existing trailers / headers object) ["resp_none"] ["resp_new", RESPDESC] ["ws_none"] ["ws_new", WSDESC]
            ["ws_close", closed_by_client, code, reason, ts]
    messages (websocket / tcp / udp): ["msg_content", i, bytes] ["msg_del", i] ["msg_add", MSG] ["msg_flip", i]
            ["msg_drop", i] (websocket only)
    dns:    ["dns", "request"|"response", attr, value]  attr in id, query, op_code, response_code, truncation,
              recursion_desired, timestamp; ["dns_q", which, [[name,type,class]..]] ["dns_ans", which, [[RR]..]]
            ["dns_resp_none"] ["dns_resp_new", DNSMSG]
    """
    from mitmproxy import dns, http, tcp, udp
    k = op[0]
    if k == "comment":
        f.comment = op[1]
    elif k == "marked":
        f.marked = op[1]
    elif k == "meta":
        f.metadata[op[1]] = copy.deepcopy(op[2])
    elif k == "meta_del":
        f.metadata.pop(op[1], None)
    elif k == "meta_inplace":
        key = op[1]
        if isinstance(key, int):  # index into the existing keys (so that nested values present at backup time are hit)
            keys = sorted(f.metadata, key=repr)
            key = keys[key % len(keys)] if keys else "k"
        op = [op[0], key, op[2]]
        cur = f.metadata.get(op[1])
        if isinstance(cur, list):
            cur.append(copy.deepcopy(op[2]))
        elif isinstance(cur, dict):
            cur["sub"] = copy.deepcopy(op[2])
        else:
            f.metadata[op[1]] = [copy.deepcopy(op[2])]
    elif k == "error":
        f.error = build_error(op[1])
    elif k == "intercepted":
        f.intercepted = op[1]
    elif k == "is_replay":
        f.is_replay = op[1]
    elif k == "ts":
        f.timestamp_created = op[1]
    elif k in ("client", "server"):
        setattr(f.client_conn if k == "client" else f.server_conn, op[1], op[2])
    elif k in ("req", "resp"):
        if isinstance(f, http.HTTPFlow):
            m = f.request if k == "req" else f.response
            if m is not None:
                attr = "raw_content" if op[1] == "content" else op[1]
                if hasattr(m.data, op[1]):
                    setattr(m, attr, op[2])
    elif k in ("req_headers", "resp_headers", "req_hadd", "resp_hadd", "req_hdel", "resp_hdel", "req_trailers",
               "resp_trailers"):
        if isinstance(f, http.HTTPFlow):
            m = f.request if k.startswith("req") else f.response
            if m is not None:
                what = k.split("_", 1)[1]
                if what == "headers":
                    m.headers = _hdrs(op[1])
                elif what == "hadd":
                    m.headers.fields = m.headers.fields + ((bytes(op[1]), bytes(op[2])),)
                elif what == "hdel":
                    fl = list(m.headers.fields)
                    if fl:
                        del fl[op[1] % len(fl)]
                        m.headers.fields = tuple(fl)
                else:
                    m.trailers = _hdrs(op[1])
    elif k in ("req_tadd", "resp_tadd", "req_hadd_inplace", "resp_hadd_inplace"):
        # in-place mutation of the existing Headers object (trailers / headers), e.g. trailers["x"] = "y" on a
        # present-but-empty Headers(); no-op while the trailers are None
        if isinstance(f, http.HTTPFlow):
            m = f.request if k.startswith("req") else f.response
            if m is not None:
                h = m.trailers if k.endswith("tadd") else m.headers
                if h is not None:
                    h.add(bytes(op[1]).decode("latin-1"), bytes(op[2]).decode("latin-1"))
    elif k == "resp_none":
        if isinstance(f, http.HTTPFlow):
            f.response = None
    elif k == "resp_new":
        if isinstance(f, http.HTTPFlow):
            f.response = build_response(op[1])
    elif k == "ws_none":
        if isinstance(f, http.HTTPFlow):
            f.websocket = None
    elif k == "ws_new":
        if isinstance(f, http.HTTPFlow):
            f.websocket = build_websocket(op[1])
    elif k == "ws_close":
        if isinstance(f, http.HTTPFlow) and f.websocket is not None:
            w = f.websocket
            w.closed_by_client, w.close_code, w.close_reason, w.timestamp_end = op[1], op[2], op[3], op[4]
    elif k in ("msg_content", "msg_del", "msg_flip", "msg_drop"):
        ms = _msgs(f)
        if ms:
            i = op[1] % len(ms)
            if k == "msg_content":
                ms[i].content = op[2]
            elif k == "msg_del":
                del ms[i]
            elif k == "msg_flip":
                ms[i].from_client = not ms[i].from_client
            elif hasattr(ms[i], "dropped"):
                ms[i].dropped = True
    elif k == "msg_add":
        ms = _msgs(f)
        if ms is not None:
            if isinstance(f, http.HTTPFlow):
                ms.append(build_wsmsg(op[1] if len(op[1]) == 6 else [2, op[1][0], op[1][1], op[1][2], False, False]))
            else:
                a, b, c = (op[1][1], op[1][2], op[1][3]) if len(op[1]) == 6 else op[1]
                ms.append((tcp.TCPMessage if isinstance(f, tcp.TCPFlow) else udp.UDPMessage)(a, b, c))
    elif k in ("dns", "dns_q", "dns_ans"):
        if isinstance(f, dns.DNSFlow):
            m = f.request if op[1] == "request" else f.response
            if m is not None:
                if k == "dns":
                    setattr(m, op[2], op[3])
                elif k == "dns_q":
                    m.questions = [dns.Question(*q) for q in op[2]]
                else:
                    m.answers = [dns.ResourceRecord(*rr) for rr in op[2]]
    elif k == "dns_resp_none":
        if isinstance(f, dns.DNSFlow):
            f.response = None
    elif k == "dns_resp_new":
        if isinstance(f, dns.DNSFlow):
            f.response = build_dnsmsg(op[1])
    else:
        raise KeyError("flowgen: unknown edit op %r" % (k,))


# ------------------------------------------------------------------------------------------------ strategies
_txt_special = st.sampled_from(["", "x", ":default:", ":grapes:", "é", "日本", "\U0001f347", "a b", "line\nbreak",
                                "tab\t", "\x00", "\x7f\x1b[31m", "3:abc,", "~", "]", "}", "true", "0"])
text = st.one_of(_txt_special, st.text(max_size=10))
ascii_text = st.text(alphabet=st.characters(min_codepoint=32, max_codepoint=126), max_size=10)
_bin_special = st.sampled_from([b"", b"x", b"\x00", b"\xff\xfe", b"3:abc,", b"0:~", b"4:true!", b"12:", b"}", b"]",
                                b";", b"\r\n", b"\xc3\xa9", b"\xc3", b"{\"a\":1}", b"5:2:0:]]"])
binary = st.one_of(_bin_special, st.binary(max_size=16), st.binary(min_size=17, max_size=200))
small_binary = st.one_of(_bin_special, st.binary(max_size=8))
ts = st.one_of(st.sampled_from([T0, T0 + 0.25, 1.0, 1e-3, 1700000000.123456, 4102444800.0, 0.1 + 0.2]),
               st.floats(min_value=1e-3, max_value=1e10, allow_nan=False, allow_infinity=False))
opt_ts = st.none() | ts
port = st.one_of(st.sampled_from([0, 22, 53, 80, 443, 8080, 65535]), st.integers(0, 65535))
host = st.one_of(st.sampled_from(["example.com", "127.0.0.1", "::1", "localhost", "sub.example.org", "xn--bcher-kva.example",
                                  "bücher.example", "", "fe80::1%eth0", "192.0.2.7"]),
                 st.text(alphabet="abcdefghijklmnopqrstuvwxyz0123456789-.", min_size=1, max_size=12))
uuid_s = st.uuids(version=4).map(str)
addr = st.one_of(st.tuples(host, port).map(list),
                 st.tuples(st.sampled_from(["::1", "fe80::1", "2001:db8::2"]), port, st.integers(0, 2 ** 20),
                           st.integers(0, 64)).map(list))
addr2 = st.tuples(host, port).map(list)
alpn = st.sampled_from([b"h2", b"http/1.1", b"h3", b"dot", b"", b"\xff\x00x"])
cipher = st.sampled_from(["TLS_AES_128_GCM_SHA256", "ECDHE-RSA-AES128-GCM-SHA256", "é", ""])
hname = st.one_of(st.sampled_from([b"Host", b"content-type", b"Content-Length", b"Set-Cookie", b"cookie", b"X-A", b"x-a",
                                   b":authority", b"", b"Transfer-Encoding", b"a b", b"\xff"]), small_binary)
hval = st.one_of(st.sampled_from([b"", b"text/html; charset=utf-8", b"0", b"a=b; c=d", b"gzip", b"chunked",
                                  b"v\xe4lue", b" lead", b"x\r\ny"]), small_binary)
headers = st.lists(st.tuples(hname, hval).map(list), max_size=5)
http_version = st.sampled_from([b"HTTP/1.1", b"HTTP/1.0", b"HTTP/2.0", b"HTTP/3", b"HTTP/2", b"", b"HTTP/0.9"])


def _leaf():
    return st.one_of(st.none(), st.booleans(), st.integers(-2 ** 70, 2 ** 70), st.integers(-3, 3), text, small_binary,
                     st.floats(allow_nan=False, allow_infinity=True, width=64), st.sampled_from([0.0, -0.0, 1e300, 5e-324]))


# metadata restricted to what tnetstring can represent and give back unchanged: None, bool, int, float (no NaN),
# str (valid Unicode), bytes, list, dict with str keys.  (tuples come back as lists: excluded.)
meta_value = st.recursive(_leaf(), lambda ch: st.one_of(st.lists(ch, max_size=3), st.dictionaries(text, ch, max_size=3)),
                          max_leaves=6)
metadata = st.one_of(st.just({}), st.dictionaries(st.one_of(st.sampled_from(["websocket", "duplicated", "k"]), text),
                                                  meta_value, max_size=3))
error = st.none() | st.tuples(st.one_of(st.sampled_from(["Connection killed.", "error", ""]), text), ts).map(list)


def _opt(d):
    """fixed_dictionaries where every key is optional (absent = default) but usually present"""
    return st.fixed_dictionaries({}, optional=d)


def conn_common():
    return dict(
        id=uuid_s, transport=st.sampled_from(["tcp", "udp"]), error=st.none() | text, tls=st.booleans(),
        certs=st.lists(st.integers(0, 2), max_size=2), alpn=st.none() | alpn, alpn_offers=st.lists(alpn, max_size=3),
        cipher=st.none() | cipher, cipher_list=st.lists(cipher, max_size=3),
        tls_version=st.none() | st.sampled_from(TLS_VERSIONS), sni=st.none() | host, ts_end=opt_ts, ts_tls=opt_ts)


def client(small=False):
    if small:
        return _opt(dict(peername=addr2, sni=st.none() | host, id=uuid_s))
    return _opt(dict(conn_common(), peername=addr, sockname=addr, ts_start=ts, mitmcert=st.none() | st.integers(0, 2),
                     proxy_mode=st.sampled_from(PROXY_MODES)))


def server(small=False):
    if small:
        return _opt(dict(address=st.none() | addr2, id=uuid_s))
    via = st.none() | st.tuples(st.sampled_from(VIA_SCHEMES), addr2).map(list)
    return _opt(dict(conn_common(), peername=st.none() | addr, sockname=st.none() | addr, ts_start=opt_ts,
                     address=st.none() | addr2, ts_tcp=opt_ts, via=via))


def msg_common(small=False):
    body = small_binary if small else binary
    return dict(http_version=http_version, headers=st.lists(st.tuples(hname, hval).map(list), max_size=2) if small else headers,
                content=st.none() | body, trailers=st.none() | headers, ts_start=ts, ts_end=opt_ts)


def request(small=False):
    return _opt(dict(
        msg_common(small), host=host, port=port,
        method=st.one_of(st.sampled_from([b"GET", b"POST", b"CONNECT", b"OPTIONS", b"", b"get", b"G\xc3\x89T"]), small_binary),
        scheme=st.sampled_from([b"http", b"https", b"", b"ws", b"\xff"]),
        authority=st.one_of(st.sampled_from([b"", b"example.com:443", b"h"]), small_binary),
        path=st.one_of(st.sampled_from([b"/", b"*", b"/a?b=c", b"", b"/%ff\xff"]), small_binary)))


def response(small=False):
    return _opt(dict(msg_common(small),
                     status_code=st.one_of(st.sampled_from([200, 101, 204, 304, 404, 502, 0, 999]), st.integers(-5, 100000)),
                     reason=st.one_of(st.sampled_from([b"OK", b"", b"Not Found", b"\xff"]), small_binary)))


def wsmsg(small=False):
    return st.tuples(st.sampled_from([1, 2]), st.booleans(), small_binary if small else binary, ts, st.booleans(),
                     st.booleans()).map(list)


def websocket(small=False):
    return _opt(dict(messages=st.lists(wsmsg(small), max_size=2 if small else 4), closed_by_client=st.none() | st.booleans(),
                     close_code=st.none() | st.sampled_from([1000, 1001, 1006, 4000, 0]), close_reason=st.none() | text,
                     ts_end=opt_ts))


def rawmsg(small=False):
    return st.tuples(st.booleans(), small_binary if small else binary, ts).map(list)


_label = st.text(alphabet="abcdefghijklmnopqrstuvwxyz0123456789-", min_size=1, max_size=8)
dns_name = st.one_of(st.sampled_from(["", "example.com", "dns.google", "a.b.c.d.e", "xn--bcher-kva.example"]),
                     st.lists(_label, min_size=1, max_size=3).map(".".join))
rr_type = st.sampled_from([1, 2, 5, 6, 12, 15, 16, 28, 33, 41, 65, 255, 65535])
rr = st.tuples(dns_name, rr_type, st.sampled_from([1, 3, 255]), st.integers(0, 2 ** 32 - 1), small_binary).map(list)


def dnsmsg(small=False):
    n = 1 if small else 3
    u16 = st.integers(0, 65535)
    return _opt(dict(id=u16, query=st.booleans(), op_code=st.integers(0, 15), aa=st.booleans(), tc=st.booleans(),
                     rd=st.booleans(), ra=st.booleans(), reserved=st.integers(0, 7), rcode=st.integers(0, 15),
                     questions=st.lists(st.tuples(dns_name, rr_type, st.sampled_from([1, 255])).map(list), max_size=n),
                     answers=st.lists(rr, max_size=n), authorities=st.lists(rr, max_size=n - 1),
                     additionals=st.lists(rr, max_size=n - 1), ts=opt_ts))


class Pool:
    """Pre-sampled pools of sub-descriptors (connections, messages, metadata ...).

    Hypothesis spends ~2 ms on every connection / message descriptor; with a Pool most sub-descriptors of a flow are
    drawn from lists that were sampled once from the very same strategies (deterministically from `seed`), and only
    one in four is generated afresh.  Cases stay self-contained descriptors (replay does not need the pool).
    Use: flows(pool=Pool(ctx.shard_seed))."""

    def __init__(self, seed, n=40):
        self.seed, self.n, self._pools = int(seed), n, {}

    def mix(self, name, strat):
        if name not in self._pools:
            self._pools[name] = sample(strat, self.n, self.seed)
        p = st.sampled_from(self._pools[name])
        return st.one_of(p, p, p, strat)


def sample(strat, n, seed):
    """n examples of a strategy, a pure function of (strategy, n, seed)"""
    from hypothesis import HealthCheck, Phase, given, seed as hseed, settings
    out = []

    @hseed(seed)
    @settings(max_examples=n, database=None, deadline=None, phases=[Phase.generate], derandomize=False,
              suppress_health_check=list(HealthCheck))
    @given(strat)
    def collect(x):
        out.append(x)

    collect()
    return out


def _mix(pool, name, strat):
    return strat if pool is None else pool.mix(name, strat)


def _flow_common(small=False, pool=None):
    sm = "s" if small else "f"
    return dict(id=uuid_s, live=st.booleans(), client=_mix(pool, "client" + sm, client(small)),
                server=_mix(pool, "server" + sm, server(small)), error=error,
                intercepted=st.booleans(), is_replay=st.sampled_from([None, None, "request", "response"]),
                marked=text, comment=text, metadata=st.just({}) if small else _mix(pool, "meta", metadata), ts=ts)


def edits(kind, small=True):
    """strategy of edit ops applicable to flows of `kind` ("http", "ws", "tcp", "udp", "dns") (STABLE)"""
    body = small_binary if small else binary
    common = [
        st.tuples(st.just("comment"), text), st.tuples(st.just("marked"), text),
        st.tuples(st.just("meta"), st.sampled_from(["k", "j", "websocket"]), meta_value),
        st.tuples(st.just("meta_del"), st.sampled_from(["k", "j", "websocket"])),
        st.tuples(st.just("meta_inplace"), st.one_of(st.sampled_from(["k", "j"]), st.integers(0, 3)), st.one_of(st.integers(0, 3), small_binary)),
        st.tuples(st.just("error"), error), st.tuples(st.just("intercepted"), st.booleans()),
        st.tuples(st.just("is_replay"), st.sampled_from([None, "request", "response"])),
        st.tuples(st.just("ts"), ts),
        st.tuples(st.sampled_from(["client", "server"]), st.just("sni"), st.none() | host),
        st.tuples(st.sampled_from(["client", "server"]), st.just("alpn"), st.none() | alpn),
        st.tuples(st.sampled_from(["client", "server"]), st.just("timestamp_end"), opt_ts),
        st.tuples(st.sampled_from(["client", "server"]), st.just("tls"), st.booleans()),
    ]
    h = ["req", "resp"]
    http_ops = [
        st.tuples(st.sampled_from(h), st.just("content"), st.none() | body),
        st.tuples(st.sampled_from(h), st.just("http_version"), http_version),
        st.tuples(st.sampled_from(h), st.just("timestamp_end"), opt_ts),
        st.tuples(st.just("req"), st.sampled_from(["method", "path", "authority"]), small_binary),
        st.tuples(st.just("req"), st.just("host"), host), st.tuples(st.just("req"), st.just("port"), port),
        st.tuples(st.just("req"), st.just("scheme"), st.sampled_from([b"http", b"https"])),
        st.tuples(st.just("resp"), st.just("status_code"), st.integers(100, 599)),
        st.tuples(st.just("resp"), st.just("reason"), small_binary),
        st.tuples(st.sampled_from(["req_headers", "resp_headers"]), headers),
        st.tuples(st.sampled_from(["req_hadd", "resp_hadd"]), hname, hval),
        st.tuples(st.sampled_from(["req_hdel", "resp_hdel"]), st.integers(0, 5)),
        st.tuples(st.sampled_from(["req_trailers", "resp_trailers"]), st.none() | headers),
        st.tuples(st.sampled_from(["req_trailers", "resp_trailers"]), st.just([])),
        st.tuples(st.sampled_from(["req_tadd", "resp_tadd", "req_hadd_inplace", "resp_hadd_inplace"]),
                  st.sampled_from([b"x-t", b"X-A", b"t"]), st.sampled_from([b"y", b"", b"1"])),
        st.tuples(st.just("resp_none")), st.tuples(st.just("resp_new"), response(True)),
    ]
    ws_ops = [st.tuples(st.just("ws_none")), st.tuples(st.just("ws_new"), websocket(True)),
              st.tuples(st.just("ws_close"), st.none() | st.booleans(), st.none() | st.integers(1000, 4999),
                        st.none() | text, opt_ts)]
    msg_ops = [st.tuples(st.just("msg_content"), st.integers(0, 5), body), st.tuples(st.just("msg_del"), st.integers(0, 5)),
               st.tuples(st.just("msg_flip"), st.integers(0, 5)), st.tuples(st.just("msg_add"), wsmsg(True))]
    which = st.sampled_from(["request", "response"])
    dns_ops = [
        st.tuples(st.just("dns"), which, st.sampled_from(["id", "op_code", "response_code"]), st.integers(0, 15)),
        st.tuples(st.just("dns"), which, st.sampled_from(["query", "truncation", "recursion_desired"]), st.booleans()),
        st.tuples(st.just("dns"), which, st.just("timestamp"), opt_ts),
        st.tuples(st.just("dns_q"), which, st.lists(st.tuples(dns_name, rr_type, st.just(1)).map(list), max_size=2)),
        st.tuples(st.just("dns_ans"), which, st.lists(rr, max_size=2)),
        st.tuples(st.just("dns_resp_none")), st.tuples(st.just("dns_resp_new"), dnsmsg(True)),
    ]
    if kind == "http":
        ops = common + http_ops + http_ops
    elif kind == "ws":
        ops = common + http_ops + ws_ops + msg_ops + msg_ops + [st.tuples(st.just("msg_drop"), st.integers(0, 5))]
    elif kind in ("tcp", "udp"):
        ops = common + msg_ops + msg_ops
    elif kind == "dns":
        ops = common + dns_ops + dns_ops
    else:
        raise KeyError(kind)
    return st.one_of(ops).map(list)


def _backup(kind, enabled, pool=None):
    if not enabled:
        return st.none()
    return st.one_of(st.none(), st.none(), st.lists(_mix(pool, "edit" + kind, edits(kind)), max_size=2))


def http_flow(small=False, backup=True, ws=False, pool=None):
    sm = "s" if small else "f"
    d = dict(_flow_common(small, pool), request=_mix(pool, "req" + sm, request(small)),
             response=st.none() | _mix(pool, "resp" + sm, response(small)),
             backup=_backup("ws" if ws else "http", backup, pool))
    if ws:
        return st.fixed_dictionaries({"type": st.just("http"), "websocket": _mix(pool, "ws" + sm, websocket(small))},
                                     optional=d)
    return st.fixed_dictionaries({"type": st.just("http")}, optional=d)


def ws_flow(small=False, backup=True, pool=None):
    return http_flow(small, backup, ws=True, pool=pool)


def tcp_flow(small=False, backup=True, pool=None):
    return st.fixed_dictionaries({"type": st.just("tcp")}, optional=dict(
        _flow_common(small, pool), messages=st.lists(rawmsg(small), max_size=2 if small else 4),
        backup=_backup("tcp", backup, pool)))


def udp_flow(small=False, backup=True, pool=None):
    return st.fixed_dictionaries({"type": st.just("udp")}, optional=dict(
        _flow_common(small, pool), messages=st.lists(rawmsg(small), max_size=2 if small else 4),
        backup=_backup("udp", backup, pool)))


def dns_flow(small=False, backup=True, pool=None):
    sm = "s" if small else "f"
    return st.fixed_dictionaries({"type": st.just("dns")}, optional=dict(
        _flow_common(small, pool), request=_mix(pool, "dns" + sm, dnsmsg(small)),
        response=st.none() | _mix(pool, "dns" + sm, dnsmsg(small)), backup=_backup("dns", backup, pool)))


_BY_KIND = {"http": http_flow, "ws": ws_flow, "tcp": tcp_flow, "udp": udp_flow, "dns": dns_flow}


def flows(kinds=("http", "ws", "tcp", "udp", "dns"), small=False, backup=True, pool=None):
    """strategy of flow descriptors of the given kinds (STABLE).  pool=Pool(seed) makes generation ~4x cheaper."""
    return st.one_of([_BY_KIND[k](small=small, backup=backup, pool=pool) for k in kinds])


def kind_of(desc):
    """"http" | "ws" | "tcp" | "udp" | "dns" for a descriptor"""
    if desc["type"] == "http" and desc.get("websocket") is not None:
        return "ws"
    return desc["type"]


def populated(desc):
    """names of optional structures that are populated in a descriptor (for non-triviality accounting)"""
    out = []
    d = desc
    if d.get("websocket") is not None:
        out.append("websocket")
        if d["websocket"].get("messages"):
            out.append("ws-messages")
    for m in ("request", "response"):
        if isinstance(d.get(m), dict) and d[m].get("trailers") is not None:
            out.append("trailers")
        if isinstance(d.get(m), dict) and "content" in d[m] and d[m]["content"] is None:
            out.append("content-missing")
    if d.get("response") is not None:
        out.append("response")
    for c in ("client", "server"):
        if d.get(c, {}).get("certs") or d.get(c, {}).get("mitmcert") is not None:
            out.append("certs")
        if d.get(c, {}).get("via"):
            out.append("via")
        if len(d.get(c, {}).get("peername") or []) == 4:
            out.append("ipv6-4tuple")
    if d.get("backup") is not None:
        out.append("backup")
    if d.get("error") is not None:
        out.append("error")
    if d.get("metadata"):
        out.append("metadata")
    if d.get("marked"):
        out.append("marked")
    if d.get("is_replay"):
        out.append("replay")
    if d.get("messages"):
        out.append("messages")
    return sorted(set(out))


# ------------------------------------------------------------------------------------------------ validity
def _is(v, *kinds):
    for k in kinds:
        if k is None:
            if v is None:
                return True
        elif k is float:
            if isinstance(v, (int, float)) and not isinstance(v, bool):
                return True
        elif k is int:
            if isinstance(v, int) and not isinstance(v, bool):
                return True
        elif isinstance(v, k):
            return True
    return False


def type_errors(f):
    """List of "path: problem" strings for every observed attribute of flow `f` whose value does not have the type
    the flow classes declare (STABLE).  An int is accepted where a float is declared.  [] == valid."""
    o = observe(f, backup=False)
    errs = []

    def chk(path, v, *kinds):
        if not _is(v, *kinds):
            errs.append("%s: %s %r" % (path, type(v).__name__, v if not isinstance(v, (bytes, str)) else v[:20]))
            return False
        return True

    def addr(path, a, optional):
        if a is None:
            if not optional:
                errs.append(path + ": None")
            return
        if not isinstance(a, list) or len(a) not in (2, 4) or not isinstance(a[0], str) or not all(_is(x, int) for x in a[1:]):
            errs.append("%s: bad address %r" % (path, a))

    def hdrs(path, h):
        if not isinstance(h, list) or not all(isinstance(x, list) and len(x) == 2 and isinstance(x[0], bytes) and isinstance(x[1], bytes) for x in h):
            errs.append("%s: bad header list" % path)

    def conn(path, c, client):
        addr(path + ".peername", c["peername"], not client)
        addr(path + ".sockname", c["sockname"], not client)
        chk(path + ".id", c["id"], str)
        if c["transport"] not in ("tcp", "udp"):
            errs.append("%s.transport: %r" % (path, c["transport"]))
        chk(path + ".error", c["error"], None, str)
        chk(path + ".tls", c["tls"], bool)
        for i, x in enumerate(c["certs"]):
            chk("%s.certs[%d]" % (path, i), x, bytes)
        chk(path + ".alpn", c["alpn"], None, bytes)
        for i, x in enumerate(c["alpn_offers"]):
            chk("%s.alpn_offers[%d]" % (path, i), x, bytes)
        chk(path + ".cipher", c["cipher"], None, str)
        for i, x in enumerate(c["cipher_list"]):
            chk("%s.cipher_list[%d]" % (path, i), x, str)
        if c["tls_version"] is not None and c["tls_version"] not in TLS_VERSIONS:
            errs.append("%s.tls_version: %r" % (path, c["tls_version"]))
        chk(path + ".sni", c["sni"], None, str)
        for k in ("ts_end", "ts_tls"):
            chk(path + "." + k, c[k], None, float)
        if client:
            chk(path + ".ts_start", c["ts_start"], float)
            chk(path + ".proxy_mode", c["proxy_mode"], str)
            chk(path + ".mitmcert", c["mitmcert"], None, bytes)
        else:
            chk(path + ".ts_start", c["ts_start"], None, float)
            chk(path + ".ts_tcp", c["ts_tcp"], None, float)
            addr(path + ".address", c["address"], True)
            if c["address"] is not None and len(c["address"]) != 2:
                errs.append(path + ".address: not a 2-tuple")
            v = c["via"]
            if v is not None and not (isinstance(v, list) and len(v) == 2 and v[0] in VIA_SCHEMES and isinstance(v[1], list)
                                      and len(v[1]) == 2 and isinstance(v[1][0], str) and _is(v[1][1], int)):
                errs.append("%s.via: %r" % (path, v))

    def msg(path, m):
        chk(path + ".http_version", m["http_version"], bytes)
        hdrs(path + ".headers", m["headers"])
        chk(path + ".content", m["content"], None, bytes)
        if m["trailers"] is not None:
            hdrs(path + ".trailers", m["trailers"])
        chk(path + ".ts_start", m["ts_start"], float)
        chk(path + ".ts_end", m["ts_end"], None, float)

    chk("id", o["id"], str)
    chk("intercepted", o["intercepted"], bool)
    if o["is_replay"] not in (None, "request", "response"):
        errs.append("is_replay: %r" % (o["is_replay"],))
    chk("marked", o["marked"], str)
    chk("comment", o["comment"], str)
    chk("metadata", o["metadata"], dict)
    chk("ts", o["ts"], float)
    if o["error"] is not None:
        chk("error.msg", o["error"][0], str)
        chk("error.timestamp", o["error"][1], float)
    conn("client", o["client"], True)
    conn("server", o["server"], False)
    t = o["type"]
    if t == "http":
        q = o["request"]
        msg("request", q)
        chk("request.host", q["host"], str)
        chk("request.port", q["port"], int)
        for k in ("method", "scheme", "authority", "path"):
            chk("request." + k, q[k], bytes)
        p = o["response"]
        if p is not None:
            msg("response", p)
            chk("response.status_code", p["status_code"], int)
            chk("response.reason", p["reason"], bytes)
        w = o["websocket"]
        if w is not None:
            for i, m in enumerate(w["messages"]):
                pth = "websocket.messages[%d]" % i
                if m[0] not in (1, 2):
                    errs.append(pth + ".type: %r" % (m[0],))
                chk(pth + ".from_client", m[1], bool)
                chk(pth + ".content", m[2], bytes)
                chk(pth + ".timestamp", m[3], float)
                chk(pth + ".dropped", m[4], bool)
                chk(pth + ".injected", m[5], bool)
            chk("websocket.closed_by_client", w["closed_by_client"], None, bool)
            chk("websocket.close_code", w["close_code"], None, int)
            chk("websocket.close_reason", w["close_reason"], None, str)
            chk("websocket.ts_end", w["ts_end"], None, float)
    elif t in ("tcp", "udp"):
        for i, m in enumerate(o["messages"]):
            pth = "messages[%d]" % i
            chk(pth + ".from_client", m[0], bool)
            chk(pth + ".content", m[1], bytes)
            chk(pth + ".timestamp", m[2], float)
    elif t == "dns":
        for which in ("request", "response"):
            m = o[which]
            if m is None:
                if which == "request":
                    errs.append("request: None")
                continue
            for k in ("id", "op_code", "reserved", "rcode"):
                chk("%s.%s" % (which, k), m[k], int)
            for k in ("query", "aa", "tc", "rd", "ra"):
                chk("%s.%s" % (which, k), m[k], bool)
            chk(which + ".ts", m["ts"], None, float)
            for i, qd in enumerate(m["questions"]):
                if not (isinstance(qd[0], str) and _is(qd[1], int) and _is(qd[2], int)):
                    errs.append("%s.questions[%d]: %r" % (which, i, qd))
            for sec in ("answers", "authorities", "additionals"):
                for i, r in enumerate(m[sec]):
                    if not (isinstance(r[0], str) and _is(r[1], int) and _is(r[2], int) and _is(r[3], int) and isinstance(r[4], bytes)):
                        errs.append("%s.%s[%d]: %r" % (which, sec, i, r))
    return errs


def canon_repr(x):
    """repr() that does not depend on dict insertion order (for sorting / multiset comparison of states) (STABLE)"""
    if isinstance(x, dict):
        return "{" + ",".join(sorted("%s:%s" % (canon_repr(k), canon_repr(v)) for k, v in x.items())) + "}"
    if isinstance(x, (list, tuple)):
        return "[" + ",".join(canon_repr(i) for i in x) + "]"
    return repr(x)
