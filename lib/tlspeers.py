"""Shared TLS / PKI helpers for C14, C15, C16 (owned by the TLS checks).

* test PKI made with `cryptography`: deterministic EC P-256 keys (``ec.derive_private_key``), CA / intermediate / leaf factory
  with every knob the certificate matrix needs (validity window, SAN list, CN, EKU, BasicConstraints, SKI method)
* in-memory TLS peers: ``PyPeer`` (Python ``ssl`` + ``ssl.MemoryBIO``; a different OpenSSL build than the one pyOpenSSL /
  mitmproxy use) for clients and servers
* ``TlsEnv``: one ``taddons.context`` with the *real* ``TlsConfig`` addon, options of Proxyserver/TlsConfig registered,
  a private confdir; dispatches tls_* hooks to the addon the way the addon manager does (exceptions are swallowed
  and recorded, like ``safecall``)
* ``Recorder`` child layer + ``make_stack`` building ServerTLSLayer / ClientTLSLayer / Recorder under lib/driver.Driver
"""
from __future__ import annotations

import atexit
import datetime
import ipaddress
import os
import shutil
import ssl
import tempfile

from cryptography import x509
from cryptography.hazmat.primitives import hashes, serialization
from cryptography.hazmat.primitives.asymmetric import ec
from cryptography.x509.oid import ExtendedKeyUsageOID, NameOID

# ------------------------------------------------------------------------------------------------ work directory
_WORK = {"dir": None}


def workdir() -> str:
    """per-process scratch directory (in /dev/shm when available); removed by cleanup() / at exit"""
    if _WORK["dir"] is None or _WORK.get("pid") != os.getpid():
        base = "/dev/shm" if os.path.isdir("/dev/shm") and os.access("/dev/shm", os.W_OK) else "/var/tmp"
        _WORK["dir"] = tempfile.mkdtemp(prefix="verif-tls-", dir=base)
        _WORK["pid"] = os.getpid()
        atexit.register(cleanup)
    return _WORK["dir"]


def cleanup():
    d = _WORK.get("dir")
    if d and _WORK.get("pid") == os.getpid():
        shutil.rmtree(d, ignore_errors=True)
        _WORK["dir"] = None


def write_file(name: str, data: bytes) -> str:
    p = os.path.join(workdir(), name)
    os.makedirs(os.path.dirname(p), exist_ok=True)
    with open(p, "wb") as f:
        f.write(data)
    return p


# ------------------------------------------------------------------------------------------------ PKI
NOW = datetime.datetime.now(datetime.timezone.utc).replace(microsecond=0)
DAY = datetime.timedelta(days=1)
_SERIAL = [1000]


def ec_key(n: int):
    """deterministic P-256 key number n (fast: no key generation)"""
    return ec.derive_private_key(0x1F2E3D4C5B6A79 + 7919 * (n + 1), ec.SECP256R1())


def _name(cn=None, org=None):
    attrs = []
    if cn is not None:
        attrs.append(x509.NameAttribute(NameOID.COMMON_NAME, cn))
    if org is not None:
        attrs.append(x509.NameAttribute(NameOID.ORGANIZATION_NAME, org))
    return x509.Name(attrs)


def general_name(s: str) -> x509.GeneralName:
    """'ip:1.2.3.4' / bare IP literal -> IPAddress, otherwise DNSName (unchecked, so wildcards etc. are possible)"""
    if s.startswith("ip:"):
        return x509.IPAddress(ipaddress.ip_address(s[3:]))
    try:
        return x509.IPAddress(ipaddress.ip_address(s))
    except ValueError:
        return x509.DNSName(s)


class Node:
    """a certificate with its key and issuer chain"""

    def __init__(self, cert, key, issuer=None):
        self.cert = cert
        self.key = key
        self.issuer = issuer

    @property
    def pem(self) -> bytes:
        return self.cert.public_bytes(serialization.Encoding.PEM)

    @property
    def key_pem(self) -> bytes:
        return self.key.private_bytes(serialization.Encoding.PEM, serialization.PrivateFormat.PKCS8,
                                      serialization.NoEncryption())

    def chain(self, include_root=False) -> list:
        """[self, intermediates...] as Node list"""
        out = [self]
        n = self.issuer
        while n is not None:
            if n.issuer is None and not include_root:
                break
            out.append(n)
            n = n.issuer
        return out

    def root(self):
        n = self
        while n.issuer is not None:
            n = n.issuer
        return n


def make_cert(*, key_index: int, cn=None, org=None, sans=(), issuer: Node | None = None, ca=False, path_length=None,
              not_before=None, not_after=None, eku=(ExtendedKeyUsageOID.SERVER_AUTH,), ski="sha1", aki=True,
              san_critical=False, key_usage=True, crl_url=None, self_key=None) -> Node:
    key = self_key or ec_key(key_index)
    subject = _name(cn, org)
    b = x509.CertificateBuilder()
    _SERIAL[0] += 1
    b = b.serial_number(_SERIAL[0] * 65537 + key_index)
    b = b.subject_name(subject)
    b = b.issuer_name(issuer.cert.subject if issuer else subject)
    b = b.public_key(key.public_key())
    b = b.not_valid_before(not_before or NOW - 2 * DAY)
    b = b.not_valid_after(not_after or NOW + 30 * DAY)
    b = b.add_extension(x509.BasicConstraints(ca=ca, path_length=path_length if ca else None), critical=True)
    if key_usage:
        if ca:
            ku = x509.KeyUsage(digital_signature=True, content_commitment=False, key_encipherment=False,
                               data_encipherment=False, key_agreement=False, key_cert_sign=True, crl_sign=True,
                               encipher_only=False, decipher_only=False)
        else:
            ku = x509.KeyUsage(digital_signature=True, content_commitment=False, key_encipherment=False,
                               data_encipherment=False, key_agreement=True, key_cert_sign=False, crl_sign=False,
                               encipher_only=False, decipher_only=False)
        b = b.add_extension(ku, critical=True)
    if eku and not ca:
        b = b.add_extension(x509.ExtendedKeyUsage(list(eku)), critical=False)
    if sans:
        b = b.add_extension(x509.SubjectAlternativeName([general_name(s) if isinstance(s, str) else s for s in sans]),
                            critical=san_critical)
    if ski == "sha1":
        b = b.add_extension(x509.SubjectKeyIdentifier.from_public_key(key.public_key()), critical=False)
    elif ski == "sha256":
        # RFC 7093 method 1: leftmost 160 bits of SHA-256 over the subjectPublicKey bit string
        h = hashes.Hash(hashes.SHA256())
        h.update(key.public_key().public_bytes(serialization.Encoding.X962, serialization.PublicFormat.UncompressedPoint))
        b = b.add_extension(x509.SubjectKeyIdentifier(h.finalize()[:20]), critical=False)
    if aki and issuer is not None:
        try:
            iski = issuer.cert.extensions.get_extension_for_class(x509.SubjectKeyIdentifier).value
            b = b.add_extension(x509.AuthorityKeyIdentifier.from_issuer_subject_key_identifier(iski), critical=False)
        except x509.ExtensionNotFound:
            pass
    if crl_url:
        b = b.add_extension(x509.CRLDistributionPoints([x509.DistributionPoint(
            [x509.UniformResourceIdentifier(crl_url)], relative_name=None, crl_issuer=None, reasons=None)]), critical=False)
    signer = issuer.key if issuer else key
    cert = b.sign(private_key=signer, algorithm=hashes.SHA256())
    return Node(cert, key, issuer)


def make_ca(cn: str, key_index: int, issuer: Node | None = None, **kw) -> Node:
    kw.setdefault("not_before", NOW - 30 * DAY)
    kw.setdefault("not_after", NOW + 365 * DAY)
    return make_cert(key_index=key_index, cn=cn, org="verif test pki", issuer=issuer, ca=True, **kw)


# ------------------------------------------------------------------------------------------------ peers
class PeerError(Exception):
    pass


class PyPeer:
    """Python-ssl endpoint over two MemoryBIOs.  `feed` = bytes arriving from the network, `drain` = bytes to send."""

    def __init__(self, sslctx: ssl.SSLContext, server_side: bool, server_hostname: str | None = None):
        self.inc = ssl.MemoryBIO()
        self.out = ssl.MemoryBIO()
        self.obj = sslctx.wrap_bio(self.inc, self.out, server_side=server_side,
                                   server_hostname=None if server_side else server_hostname)
        self.done = False
        self.error = None
        self.plain = bytearray()  # decrypted application data
        self.eof = False  # close_notify received
        self.fed = 0

    def feed(self, data: bytes):
        if data:
            self.fed += len(data)
            self.inc.write(data)

    def drain(self) -> bytes:
        return self.out.read()

    def handshake(self) -> bool:
        """advance the handshake; True when complete.  TLS failures are stored in .error (and re-raised as PeerError)"""
        if self.done:
            return True
        try:
            self.obj.do_handshake()
            self.done = True
        except (ssl.SSLWantReadError, ssl.SSLWantWriteError):
            pass
        except ssl.SSLError as e:
            self.error = e
            raise PeerError(str(e)) from e
        return self.done

    def write(self, data: bytes):
        self.obj.write(data)

    def pump_read(self):
        """decrypt everything available into .plain; sets .eof on close_notify"""
        while not self.eof:
            try:
                chunk = self.obj.read(65536)
            except (ssl.SSLWantReadError, ssl.SSLWantWriteError):
                return
            except ssl.SSLZeroReturnError:
                self.eof = True
                return
            except ssl.SSLError as e:
                self.error = e
                return
            if chunk == b"":
                self.eof = True
                return
            self.plain += chunk

    def close_notify(self):
        """send close_notify (half close)"""
        try:
            self.obj.unwrap()
        except (ssl.SSLWantReadError, ssl.SSLWantWriteError):
            pass
        except ssl.SSLError as e:
            self.error = e


def server_context(leaf: Node, send_chain=True, alpn=None, max_version=None, min_version=None) -> ssl.SSLContext:
    """Python-ssl server context presenting `leaf` (+ its intermediates when send_chain)"""
    c = ssl.SSLContext(ssl.PROTOCOL_TLS_SERVER)
    pem = leaf.pem + (b"".join(n.pem for n in leaf.chain()[1:]) if send_chain else b"") + leaf.key_pem
    p = write_file("srv-%d.pem" % id(leaf), pem)
    try:
        c.load_cert_chain(p)
    finally:
        os.unlink(p)
    if alpn:
        c.set_alpn_protocols(list(alpn))
    if max_version:
        c.maximum_version = max_version
    if min_version:
        c.minimum_version = min_version
    return c


def client_context(trust_pems: bytes | None, alpn=None, max_version=None, min_version=None, strict=False, check_hostname=True):
    c = ssl.SSLContext(ssl.PROTOCOL_TLS_CLIENT)
    if trust_pems is None:
        c.check_hostname = False
        c.verify_mode = ssl.CERT_NONE
    else:
        c.check_hostname = check_hostname
        c.verify_mode = ssl.CERT_REQUIRED
        c.load_verify_locations(cadata=trust_pems.decode("ascii"))
        if strict:
            c.verify_flags |= ssl.VERIFY_X509_STRICT
    if alpn:
        c.set_alpn_protocols(list(alpn))
    if max_version:
        c.maximum_version = max_version
    if min_version:
        c.minimum_version = min_version
    return c


# ------------------------------------------------------------------------------------------------ mitmproxy side
class TlsEnv:
    """The real TlsConfig addon inside a taddons.context, with a private confdir.  One per process."""

    def __init__(self, confdir: str | None = None, **opts):
        from mitmproxy.addons import tlsconfig
        from mitmproxy.addons.proxyserver import Proxyserver
        from mitmproxy.test import taddons
        self.addon = tlsconfig.TlsConfig()
        self.tctx = taddons.context(self.addon)
        self.options = self.tctx.options
        Proxyserver().load(self.options)  # registers connection_strategy & co. (the addon itself is not run)
        self.confdir = confdir or os.path.join(workdir(), "confdir")
        os.makedirs(self.confdir, exist_ok=True)
        self.addon_errors = []
        self.configure(confdir=self.confdir, **opts)

    def configure(self, **opts):
        """options.update -> TlsConfig.configure runs through the addon manager, as in the product"""
        changed = {k: v for k, v in opts.items() if getattr(self.options, k) != v}
        if changed:
            self.options.update(**changed)

    def hook_policy(self, extra=None):
        addon = self.addon
        errors = self.addon_errors

        def policy(hook):
            fn = getattr(addon, hook.name, None)
            if fn is not None:
                try:
                    fn(*hook.args())
                except Exception as e:  # addonmanager.safecall: logged, not propagated
                    errors.append((hook.name, e))
            if extra is not None:
                return extra(hook)
            return None

        return policy

    def close(self):
        try:
            self.tctx.master.event_loop.close()
        except Exception:
            pass


class Recorder:
    """factory for the recording child layer (class is created lazily so that importing this module stays cheap)"""

    @staticmethod
    def make(ctx, on_event=None):
        from mitmproxy.proxy import commands, events, layer

        class _Recorder(layer.Layer):
            def __init__(self, context):
                super().__init__(context)
                self.log = []  # ("data", conn, bytes) | ("closed", conn) | ("start",) | ("opened", err)
                self.on_event = on_event

            def data_from(self, conn) -> bytes:
                return b"".join(x[2] for x in self.log if x[0] == "data" and x[1] is conn)

            def closed_count(self, conn) -> int:
                return sum(1 for x in self.log if x[0] == "closed" and x[1] is conn)

            def _handle_event(self, event):
                if isinstance(event, events.Start):
                    self.log.append(("start",))
                elif isinstance(event, events.DataReceived):
                    self.log.append(("data", event.connection, event.data))
                elif isinstance(event, events.ConnectionClosed):
                    self.log.append(("closed", event.connection))
                elif isinstance(event, InjectCommands):
                    for c in event.cmds:
                        r = yield c
                        if isinstance(c, commands.OpenConnection):
                            self.log.append(("opened", r))
                    return
                if self.on_event:
                    yield from self.on_event(self, event)
                yield from ()

        return _Recorder(ctx)


try:
    from mitmproxy.proxy import events as _ev

    class InjectCommands(_ev.Event):
        """private event: makes the Recorder emit the given commands (SendData / CloseConnection / OpenConnection)"""

        def __init__(self, cmds):
            self.cmds = list(cmds)

        def __repr__(self):
            return "InjectCommands(%d)" % len(self.cmds)
except Exception:  # pragma: no cover - mitmproxy not importable: only the PKI/peer helpers are usable
    InjectCommands = None


def make_stack(env: TlsEnv, *, client_tls=True, server_tls=True, server_address=("upstream.example", 443), server_open=False,
               server_sni=None, transport="tcp", extra_policy=None, conn_policy=None, on_event=None, sockname=("127.0.0.1", 8080),
               other_server_conn=False):
    """ServerTLSLayer / ClientTLSLayer / Recorder under a Driver.  Returns (driver, context, recorder, layers).
    other_server_conn: the ServerTLSLayer gets its own Server object instead of context.server (what the stack for an
    https:// upstream proxy does: ServerTLSLayer(context, conn)); it is available as driver.server_conn."""
    import driver as D
    from mitmproxy import connection as mconn
    from mitmproxy.connection import ConnectionState
    from mitmproxy.proxy.layers import tls
    c = D.make_context(env.options, transport=transport, sockname=sockname)
    if other_server_conn:
        srv = mconn.Server(address=server_address)
        c.server.address = ("final-destination.example", 443)
    else:
        srv = c.server
        if server_address is not None:
            srv.address = server_address
    if server_sni is not None:
        srv.sni = server_sni
    if server_open:
        srv.state = ConnectionState.OPEN
        srv.peername = (server_address[0], server_address[1])
        srv.timestamp_start = 1605699330
    layers = []
    top = None
    last = None
    if server_tls:
        top = last = tls.ServerTLSLayer(c, srv) if other_server_conn else tls.ServerTLSLayer(c)
        layers.append(last)
    if client_tls:
        if not server_tls:
            # ClientTLSLayer looks at context.layers[-2]; give it a harmless parent
            from mitmproxy.proxy import layer as mlayer

            class _Pass(mlayer.Layer):
                child_layer = None

                def _handle_event(self, event):
                    for cmd in self.child_layer.handle_event(event):
                        yield cmd

            top = last = _Pass(c)
            layers.append(last)
        cl = tls.ClientTLSLayer(c)
        last.child_layer = cl
        last = cl
        layers.append(cl)
    rec = Recorder.make(c, on_event)
    if last is None:
        top = rec
    else:
        last.child_layer = rec
    d = D.Driver(c, top, hook_policy=env.hook_policy(extra_policy), conn_policy=conn_policy)
    d.server_conn = srv
    return d, c, rec, layers


def inject(driver, *cmds):
    """let the Recorder child emit commands now"""
    driver.feed(InjectCommands(cmds))
