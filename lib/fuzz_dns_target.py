"""atheris (libFuzzer) byte-level target for C25, run as a subprocess by checks/c25.py in the thorough tier.

    python fuzz_dns_target.py -runs=N -seed=S [libFuzzer flags] <corpus dir>

Oracle = checks/c25.check_bytes (totality, termination, re-encode stability).  Inputs that violate it are written to
$C25_FINDS (at most 3 per bucket) and fuzzing continues; the parent replays them through the normal check so that they
are bucketed, matched against known findings and reported like any other case.
"""
import hashlib
import os
import re
import sys

HERE = os.path.dirname(os.path.abspath(__file__))
sys.path[:0] = [HERE, os.path.join(os.path.dirname(HERE), "checks")]

import atheris  # noqa: E402

with atheris.instrument_imports(include=["mitmproxy.dns", "mitmproxy.net.dns"]):
    import mitmproxy.dns  # noqa: E402,F401
    import mitmproxy.net.dns.domain_names  # noqa: E402,F401
    import mitmproxy.net.dns.https_records  # noqa: E402,F401

import c25  # noqa: E402
import runner  # noqa: E402

FINDS = os.environ.get("C25_FINDS")
_seen = {}
_ctx = runner.Ctx("C25", "thorough", 1)


def TestOneInput(data: bytes):
    ctx = _ctx
    ctx.cur_case = None
    c25.check_bytes(data, ctx, "atheris", use_alarm=False, record_case=False)
    if ctx.failures:
        for bucket in ctx.failures:
            n = _seen.get(bucket, 0)
            if n < 3 and FINDS:
                _seen[bucket] = n + 1
                name = re.sub(r"[^A-Za-z0-9_.-]+", "_", bucket)[:60] + "-" + hashlib.sha1(data).hexdigest()[:10]
                with open(os.path.join(FINDS, name), "wb") as f:
                    f.write(data)
        ctx.failures.clear()
    if len(ctx.nontrivial) > 50000:
        ctx.nontrivial.clear()
    ctx.classes.clear()


if __name__ == "__main__":
    atheris.Setup(sys.argv, TestOneInput)
    atheris.Fuzz()
