"""End-to-end part of C29 ("raw TCP relaying is exact; a half-close is propagated as a half-close while data still flows
the other way") on the deterministic asyncio simulator (lib/simloop.py).

The real ``ProxyConnectionHandler.handle_client`` - i.e. the real ``ConnectionHandler.server_event`` command executor,
``handle_connection`` and ``close_connection`` - runs over the real ``TCPLayer`` with fake client and server streams.
Both peers send unique tokens at generated virtual instants and each sends EOF once, at a generated point of its own
script: typically one peer half-closes early while the other keeps sending for a while.  ``tcp_message`` hooks may take
generated virtual time.  (Layer-level playbooks cannot see how commands are *executed*; this part can.)

Oracle (no code shared with mitmproxy):
  * every byte a peer sent (all of it precedes that peer's own EOF) is written to the other peer's socket, in order,
    exactly once - also after the receiving peer has half-closed;
  * the proxy never closes a socket whose peer has not yet sent its EOF (a full close there is what loses data);
  * when all hooks are instantaneous and peer X's EOF precedes peer Y's EOF by a clear margin, Y's socket gets
    write_eof() (FIN) before Y finishes - the half-close is relayed as a half-close;
  * the handler terminates (no deadlock).  Whether every socket object is closed at the end is C09's business.
Cases are JSON-able dicts.
"""
from __future__ import annotations

import simloop
from simhandler import OV_U, _OVERSHOOT, options
from simloop import U

DEST = ("dest.test", 7)
C, S = 0, 1


def strategy():
    from hypothesis import strategies as st
    ev = st.tuples(st.integers(0, 1), st.integers(0, 6), st.sampled_from([1, 1, 3, 40]), st.sampled_from([0, 0, 0, 1, 4]))
    return st.fixed_dictionaries({
        "part": st.just("E"),
        "events": st.lists(ev, min_size=2, max_size=9),  # (side, gap, payload length, tcp_message hook duration)
        "eof_at": st.tuples(st.integers(0, 9), st.integers(0, 9)),  # index in `events` before which that side sends EOF
        "eof_gap": st.tuples(st.integers(0, 5), st.integers(0, 5)),
        "connect_delay": st.sampled_from([0, 0, 1, 5]),
        "eager": st.booleans(),
        "overshoots": st.lists(st.sampled_from(_OVERSHOOT), max_size=4),
    })


def timeline(case):
    """-> per side: script [[delay, item]], list of tokens, relative EOF instant (units)"""
    evs = case["events"]
    eof_at = [min(int(x), len(evs)) for x in case["eof_at"]]
    items = []  # (time, order, side, item)
    t = 0
    for i, (side, gap, ln, dur) in enumerate(evs):
        for sd in (C, S):
            if eof_at[sd] == i:
                items.append((t + case["eof_gap"][sd], sd, "eof"))
        t += gap
        if i < eof_at[side]:
            tok = b"<%s%d>" % (b"c" if side == C else b"s", i)
            items.append((t, side, tok + b"." * max(0, ln - len(tok))))
    for sd in (C, S):
        if eof_at[sd] >= len(evs):
            items.append((t + 1 + case["eof_gap"][sd], sd, "eof"))
    scripts, tokens, eof_t = [[], []], [[], []], [None, None]
    last = [0, 0]
    done = [False, False]
    for when, sd, item in sorted(items, key=lambda x: (x[0], 0 if x[2] != "eof" else 1)):
        if done[sd]:
            continue
        # strictly increasing instants per peer: timers scheduled for the same instant have no defined order,
        # whereas bytes (and the FIN) of one socket always arrive in the order they were sent
        when = max(when, last[sd] + 1) if scripts[sd] else when
        scripts[sd].append([when - last[sd], item])
        last[sd] = when
        if item == "eof":
            done[sd] = True
            eof_t[sd] = when
        else:
            tokens[sd].append(item)
    return scripts, tokens, eof_t


def check_case(case, ctx):
    from mitmproxy import connection
    from mitmproxy.proxy import layers, mode_servers

    scripts, tokens, eof_rel = timeline(case)
    durs = [e[3] for e in case["events"]]
    box = {}
    trace = []
    msg_hooks = []  # [start, end] of every tcp_message hook

    def setup(loop):
        box["net"] = simloop.Net(loop, [{"delay": case["connect_delay"], "outcome": "ok", "reads": scripts[S]}])
        return simloop.patched(loop, box["net"])

    async def main(loop):
        import asyncio
        net = box["net"]
        box["t0"] = loop.time()
        r, w = net.make_client(reads=scripts[C])
        state = {"n": 0}

        class Addons:
            async def handle_lifecycle(self, hook):
                trace.append((loop.time(), hook.name))
                if hook.name == "tcp_message":
                    k = state["n"]
                    state["n"] += 1
                    d = durs[k % len(durs)]
                    rec = [loop.time(), None]
                    msg_hooks.append(rec)
                    if d:
                        await asyncio.sleep(d * U)
                    rec[1] = loop.time()

        class Master:
            addons = Addons()

        opts, mode = options(3)
        h = mode_servers.ProxyConnectionHandler(Master(), r, w, opts, mode)
        ctxt = h.layer.context
        ctxt.server = connection.Server(address=DEST, transport_protocol="tcp")
        h.layer = layers.TCPLayer(ctxt)
        await h.handle_client()

    out = simloop.run(main, overshoots=[x * OV_U for x in case["overshoots"]], max_iter=60_000, setup=setup,
                      eager=case.get("eager", False))
    if out.error is not None:
        import traceback
        tb = traceback.extract_tb(out.error.__traceback__)
        if not tb or "/verif/" in tb[-1].filename:
            raise out.error
        ctx.crash(out.error, prefix="e2e-handle_client-raised")
        return
    net = box["net"]
    if not net.writers:
        from runner import HarnessError
        raise HarnessError("no server connection was opened: %r" % (net.calls,))
    cw, sw = net.client_writer, net.writers[0]
    t0 = box["t0"]
    t_conn = net.calls[0]["t_done"]
    eof_abs = [t0 + eof_rel[C] * U, t_conn + eof_rel[S] * U]
    slow_hooks = any(durs)
    first_eof = C if eof_abs[C] <= eof_abs[S] else S
    later = 1 - first_eof
    data_after = sum(1 for d, it in scripts[later] if it != "eof") and eof_abs[later] > eof_abs[first_eof]
    cls = "%s-eof-first%s" % ("client" if first_eof == C else "server", ":slow-hooks" if slow_hooks else "")

    if out.ended != "ok":
        ctx.fail("e2e:no-termination:" + out.ended, "trace %r" % (trace[-6:],))
        return

    # 1. exact relay, both ways
    for src, dstw, who in ((C, sw, "to-server"), (S, cw, "to-client")):
        want = b"".join(tokens[src])
        got = b"".join(d for _, d in dstw.written)
        if got != want:
            kind = "lost" if want.startswith(got) else ("extra" if got.startswith(want) else "changed")
            after = "after-peer-half-closed" if (src == later and data_after) else "plain"
            # input class: the client connection handler finished (client EOF after the proxy had already sent it a
            # FIN) while a tcp_message hook was still running
            t_cd = [t for t, n in trace if n == "client_disconnected"]
            if kind == "lost" and t_cd and any(e is None or e >= t_cd[0] for _, e in msg_hooks):  # (>=: same virtual instant)
                after = "message-hook-pending-at-client-teardown"
            ctx.fail("e2e:relay-%s:%s:%s" % (kind, who, after),
                     "sent %d bytes %r..., socket got %d bytes; EOFs at %r, socket closed at %r, trace %r"
                     % (len(want), want[:24], len(got), eof_abs, dstw.closed_at, trace[-5:]))
    # 2. no socket is closed before its peer has finished sending
    for side, wr, who in ((C, cw, "client"), (S, sw, "server")):
        if wr.closed_at is not None and wr.closed_at < eof_abs[side]:
            ctx.fail("e2e:socket-closed-before-peer-eof:" + who,
                     "%s socket closed at %r but that peer sends until %r (other peer's EOF at %r)"
                     % (who, wr.closed_at, eof_abs[side], eof_abs[1 - side]))
    # 3. half-close relayed as half-close
    margin = 2 * U
    punctual = all(x <= 1 for x in case["overshoots"])  # a loop that wakes up late may see both EOFs at once
    # (the FIN can only be relayed once the upstream connection exists)
    if not slow_hooks and punctual and max(eof_abs[first_eof], t_conn) + margin < eof_abs[later]:
        wr, who = (sw, "server") if first_eof == C else (cw, "client")
        label = "s0" if first_eof == C else "client"
        t_fin = [t for t, what, lb in net.log if what == "write_eof" and lb == label]
        if not t_fin or t_fin[0] > eof_abs[later]:
            ctx.fail("e2e:half-close-not-relayed-as-fin:" + who,
                     "peer EOF at %r, other peer keeps its side open until %r, write_eof times %r, closed at %r"
                     % (eof_abs[first_eof], eof_abs[later], t_fin, wr.closed_at))

    key = ("E", tuple((e[0], e[1], e[3]) for e in case["events"]), tuple(case["eof_at"]), tuple(case["eof_gap"]),
           case["connect_delay"], case["eager"])
    if data_after:
        ctx.nt(key, "e2e:data-after-half-close:" + cls)
    else:
        ctx.cls("e2e:no-data-after-first-eof")
