"""Grammar-based Hypothesis strategies for HTTP/1 client and server byte streams (shared by C01, C02, C03, C07, C12).

A *request descriptor* / *response descriptor* is a JSON-able dict; ``req_bytes`` / ``resp_bytes`` render them.
Rendering is deterministic, so cases can carry descriptors and every consumer derives the same bytes.
"""
import random


class R(random.Random):
    """seeded PRNG with a tiny strategy-like vocabulary (cases are pure functions of the seed)"""

    def pick(self, seq):
        return seq[self.randrange(len(seq))]

    def bool(self):
        return self.random() < 0.5

    def int(self, a, b):
        return self.randint(a, b)

    level = 1.0  # adversity level of the message being built: probability scale for each malformed choice

    def adv(self, p=1.0):
        return self.random() < p * self.level

    def bytes_(self, max_size):
        n = self.randint(0, max_size) if self.random() < 0.7 else self.randint(0, 3)
        return bytes(self.getrandbits(8) for _ in range(n))


HOSTS = [b"a.example", b"b.example:8080"]

_token_chars = "abcdefghijklmnopqrstuvwxyzABCDEFGHIJKLMNOPQRSTUVWXYZ0123456789-_"
_ORD_NAMES = [b"X-A", b"x-b", b"Accept", b"User-Agent", b"Cookie", b"X-Long-Header-Name", b"Via"]
_ORD_VALUES = [b"1", b"abc", b"a, b", b"", b"text/html; q=0.8", b"x" * 40, b"a\tb", b"caf\xc3\xa9", b"\xff\xfe"]


def _ord_field(rnd):
    if rnd.bool():
        v = rnd.pick(_ORD_VALUES)
    else:
        alpha = _token_chars + " ,;=/"
        v = "".join(rnd.pick(alpha) for _ in range(rnd.int(0, 12))).encode().strip()
    return rnd.pick(_ORD_NAMES) + b": " + v

# ---- framing field variants ------------------------------------------------------------------------------
# each entry: (class label, list of raw field lines *without* line end; {n} is replaced by the true body length)
CL_VARIANTS = [
    ("cl", [b"Content-Length: {n}"]),
    ("cl", [b"Content-Length: {n}"]),
    ("cl", [b"Content-Length: {n}"]),
    ("cl-nows", [b"Content-Length:{n}"]),
    ("cl-tab", [b"Content-Length:\t{n} "]),
    ("cl-case", [b"cOnTeNt-LeNgTh: {n}"]),
    ("cl-lead0", [b"Content-Length: 0{n}"]),
    ("cl-plus", [b"Content-Length: +{n}"]),
    ("cl-minus", [b"Content-Length: -{n}"]),
    ("cl-hex", [b"Content-Length: 0x{n}"]),
    ("cl-space-inside", [b"Content-Length: {n} {n}"]),
    ("cl-list-same", [b"Content-Length: {n}, {n}"]),
    ("cl-list-differ", [b"Content-Length: {n}, 0"]),
    ("cl-dup-same", [b"Content-Length: {n}", b"Content-Length: {n}"]),
    ("cl-dup-differ", [b"Content-Length: {n}", b"Content-Length: 0"]),
    ("cl-dup-differ2", [b"Content-Length: 0", b"Content-Length: {n}"]),
    ("cl-empty", [b"Content-Length: "]),
    ("cl-alpha", [b"Content-Length: abc"]),
    ("cl-vt", [b"Content-Length: \x0b{n}"]),
    ("cl-ws-name", [b"Content-Length : {n}"]),
    ("cl-underscore", [b"Content_Length: {n}"]),
    ("cl-fold", [b"Content-Length:", b" {n}"]),
    ("cl-nul", [b"Content-Length: {n}\x00"]),
    ("cl-huge", [b"Content-Length: 99999999999999999999{n}"]),
]
TE_VARIANTS = [
    ("te", [b"Transfer-Encoding: chunked"]),
    ("te", [b"Transfer-Encoding: chunked"]),
    ("te", [b"Transfer-Encoding: chunked"]),
    ("te-case", [b"transfer-encoding: ChUnKeD"]),
    ("te-nows", [b"Transfer-Encoding:chunked"]),
    ("te-gzip-chunked", [b"Transfer-Encoding: gzip, chunked"]),
    ("te-gzip-chunked-ows", [b"Transfer-Encoding: gzip \t,\tchunked"]),
    ("te-dup", [b"Transfer-Encoding: chunked", b"Transfer-Encoding: chunked"]),
    ("te-split", [b"Transfer-Encoding: gzip", b"Transfer-Encoding: chunked"]),
    ("te-chunked-gzip", [b"Transfer-Encoding: chunked, gzip"]),
    ("te-identity", [b"Transfer-Encoding: identity"]),
    ("te-gzip", [b"Transfer-Encoding: gzip"]),
    ("te-unknown", [b"Transfer-Encoding: xchunked"]),
    ("te-unknown2", [b"Transfer-Encoding: chunked, foo"]),
    ("te-quoted", [b"Transfer-Encoding: \"chunked\""]),
    ("te-vt", [b"Transfer-Encoding: \x0bchunked"]),
    ("te-ws-name", [b"Transfer-Encoding : chunked"]),
    ("te-fold", [b"Transfer-Encoding:", b"\tchunked"]),
    ("te-empty-elem", [b"Transfer-Encoding: ,chunked"]),
    ("te-nonascii", [b"Transfer-Encoding: chunked\xc5\xbf"]),
    ("te-param", [b"Transfer-Encoding: chunked;q=1"]),
]
BAD_FIELD_LINES = [
    ("bad-name-space", b"X Bad: 1"),
    ("bad-name-empty", b": novalue"),
    ("bad-name-paren", b"X(a): 1"),
    ("bad-name-nul", b"X\x00Y: 1"),
    ("bad-name-highbit", b"X\xe9: 1"),
    ("bad-nocolon", b"JustSomeText"),
    ("val-nul", b"X-Nul: a\x00b"),
    ("val-cr", b"X-Cr: a\rContent-Length: 7"),
    ("fold", b"X-Fold: a\r\n b"),
    ("fold-tab", b"X-Fold: a\r\n\t\tb"),
    ("name-only-colon", b"X-Empty:"),
    ("lead-ws-line", b" X-LeadingWs: 1"),
]
# every RFC 9110 delimiter and a few other non-tchar octets, anywhere in a field name (", Content-Length" smuggling shape too)
_NON_TCHAR = [bytes([c]) for c in b'"(),/;<=>?@[\\]{}\x7f\x0b\x1b\x80\xff']


def _bad_field(rnd):
    if rnd.int(0, 3) == 0:
        ch = rnd.pick(_NON_TCHAR)
        shape = rnd.pick([b"X%sY: 1", b"%sX: 1", b"X-Len%sContent-Length: 5", b"Transfer-Encoding%s: chunked", b"X%s: 1"])
        return "bad-name-nontoken", shape % ch
    return rnd.pick(BAD_FIELD_LINES)


_BODIES = [b"", b"a", b"hello", b"0\r\n\r\n", b"GET /smuggled HTTP/1.1\r\nHost: a.example\r\n\r\n", b"\r\n", b"x" * 33]


def _body(rnd, max_size=64):
    return rnd.pick(_BODIES) if rnd.bool() else rnd.bytes_(max_size)


def framing(rnd, is_request: bool):
    """returns dict(kind=..., lines=[raw lines with {n}], cls=[labels])"""
    kind = rnd.pick(["none", "none", "cl", "cl", "cl", "te", "te"])
    if rnd.adv(0.25):
        kind = rnd.pick(["both", "weird"])
    lines, cls = [], []
    if kind in ("cl", "both"):
        c, l = rnd.pick(CL_VARIANTS) if rnd.adv(0.7) else CL_VARIANTS[0]
        lines += l
        cls.append(c)
    if kind in ("te", "both"):
        c, l = rnd.pick(TE_VARIANTS) if rnd.adv(0.7) else TE_VARIANTS[0]
        if rnd.bool():
            lines = l + lines
        else:
            lines += l
        cls.append(c)
    if kind == "weird":
        c, l = rnd.pick(CL_VARIANTS + TE_VARIANTS)
        lines += l
        cls.append(c)
        if rnd.bool():
            c, l = rnd.pick(CL_VARIANTS + TE_VARIANTS)
            lines += l
            cls.append(c)
    return {"lines": lines, "cls": cls}


def body_wire(rnd, cls):
    """how the body is put on the wire: dict(body=bytes, wire=mode, chunks=[sizes], ext=bool, trailers=bool, delta=int)"""
    body = _body(rnd)
    has_te = any(c.startswith("te") for c in cls)
    has_cl = any(c.startswith("cl") for c in cls)
    if has_te and (not has_cl or rnd.bool()):
        wire = "chunked"
    elif has_cl:
        wire = "raw"
    else:
        wire = rnd.pick(["raw-empty", "raw-empty", "raw-empty", "raw"])
        if wire == "raw-empty":
            body, wire = b"", "raw"
    cuts = sorted(rnd.int(0, max(len(body), 1)) for _ in range(rnd.int(0, 3)))
    style = rnd.pick(["plain", "plain", "plain", "ext", "upper", "lead0", "ext-quoted"])
    if rnd.adv(0.1):
        style = "trailers"
    delta = rnd.pick([-1, 1, 5]) if rnd.adv(0.3) else 0  # declared length minus actual (raw only)
    return {"body": body, "wire": wire, "cuts": cuts, "style": style, "delta": delta}


def render_body(bw):
    body = bw["body"]
    if bw["wire"] != "chunked":
        return body
    out = bytearray()
    pts = [0] + [c for c in bw["cuts"] if 0 < c < len(body)] + [len(body)]
    style = bw["style"]
    for a, b in zip(pts, pts[1:]):
        chunk = body[a:b]
        if not chunk:
            continue
        size = b"%x" % len(chunk)
        if style == "upper":
            size = size.upper()
        elif style == "lead0":
            size = b"000" + size
        if style == "ext":
            size += b";foo=bar"
        elif style == "ext-quoted":
            size += b";a=\"b;c\""
        out += size + b"\r\n" + chunk + b"\r\n"
    out += b"0\r\n"
    if style == "trailers":
        out += b"X-Trailer: 1\r\n"
    out += b"\r\n"
    return bytes(out)


def _declared_len(bw):
    n = len(bw["body"]) + (bw["delta"] if bw["wire"] != "chunked" else 0)
    return max(n, 0)


def _fill(lines, n):
    return [l.replace(b"{n}", b"%d" % n) for l in lines]


LEVELS = [0.0, 0.0, 0.1, 0.1, 0.4, 1.0]


def request(rnd, mode="regular", allow_bad=True, level=None):
    rnd.level = rnd.pick(LEVELS) if level is None else level
    method = rnd.pick([b"GET", b"GET", b"POST", b"POST", b"PUT", b"HEAD", b"OPTIONS", b"DELETE", b"post", b"M-SEARCH"])
    if rnd.adv(0.1):
        method = rnd.pick([b"head", b"Head", b"get", b"HEAD\x00"])
    host = rnd.pick(HOSTS + [HOSTS[0]] * 3)
    path = rnd.pick([b"/", b"/a", b"/a/b?c=d", b"/%7e", b"/x;y", b"/caf\xc3\xa9", b"//double", b"/?q=http://z/"])
    form = rnd.pick(["abs", "abs", "abs", "origin", "star"]) if mode == "regular" else rnd.pick(
        ["origin", "origin", "origin", "abs"])
    if rnd.adv(0.15):
        form = "origin-nohost"
    if form == "star":
        method = b"OPTIONS"
    version = rnd.pick([b"HTTP/1.1"] * 6 + [b"HTTP/1.0"])
    if rnd.adv(0.2):
        version = rnd.pick([b"HTTP/1.2", b"HTTP/0.9", b"http/1.1", b"HTTP/1.10"])
    sep = rnd.pick([b"  ", b"\t", b" \t "]) if rnd.adv(0.2) else b" "
    eol = b"\n" if rnd.adv(0.15) else b"\r\n"
    lead = b"\r\n" if rnd.adv(0.1) else b""  # empty line before the request
    nf = rnd.int(0, 4)
    fields = [_ord_field(rnd) for _ in range(nf)]
    fr = framing(rnd, True)
    bw = body_wire(rnd, fr["cls"])
    cls = list(fr["cls"])
    extra = []
    if allow_bad and rnd.adv(0.3):
        c, l = _bad_field(rnd)
        extra.append(l)
        cls.append(c)
    conn = rnd.pick([None] * 6 + [b"Connection: close", b"Connection: keep-alive", b"Expect: 100-continue"])
    if conn:
        extra.append(conn)
        cls.append(conn.split(b":")[0].decode().lower() + ":" + conn.split(b": ")[1].decode())
    order = list(range(len(fields) + len(extra) + 1))
    rnd.shuffle(order)
    return {"method": method, "host": host, "path": path, "form": form, "version": version, "sep": sep, "eol": eol,
            "lead": lead, "fields": fields, "framing": fr["lines"], "extra": extra, "order": list(order), "bw": bw, "cls": cls}


def req_bytes(r):
    if r["form"] == "abs":
        target = b"http://" + r["host"] + r["path"]
    elif r["form"] == "star":
        target = b"*"
    else:
        target = r["path"]
    line = r["method"] + r["sep"] + target + r["sep"] + r["version"]
    groups = [[f] for f in r["fields"]] + [[e] for e in r["extra"]] + [_fill(r["framing"], _declared_len(r["bw"]))]
    lines = []
    for i in r["order"]:
        if i < len(groups):
            lines += groups[i]
    if r["form"] != "origin-nohost":
        lines.insert(0, b"Host: " + r["host"])
    eol = r["eol"]
    head = r["lead"] + line + eol + b"".join(l + eol for l in lines) + eol
    return head + render_body(r["bw"])


def response(rnd, allow_bad=True, level=None):
    rnd.level = rnd.pick(LEVELS) if level is None else level
    status = rnd.pick([200] * 8 + [204, 304, 404, 500, 301, 206])
    if rnd.adv(0.15):
        status = rnd.pick([100, 103, 199, 600, 999])
    version = rnd.pick([b"HTTP/1.1"] * 6 + [b"HTTP/1.0", b"HTTP/1.0"])
    if rnd.adv(0.1):
        version = rnd.pick([b"HTTP/1.2", b"HTTP/2.0", b"http/1.1"])
    reason = rnd.pick([b"OK", b"OK", b"", b"Not Found", b"multi word reason", b"caf\xe9"])
    nf = rnd.int(0, 3)
    fields = [_ord_field(rnd) for _ in range(nf)]
    fr = framing(rnd, False)
    bw = body_wire(rnd, fr["cls"])
    cls = list(fr["cls"])
    extra = []
    if allow_bad and rnd.adv(0.3):
        c, l = _bad_field(rnd)
        extra.append(l)
        cls.append(c)
    conn = rnd.pick([None] * 6 + [b"Connection: close", b"Connection: keep-alive"])
    if conn:
        extra.append(conn)
    eol = b"\n" if rnd.adv(0.15) else b"\r\n"
    close_after = rnd.int(0, 3) == 0
    return {"status": status, "version": version, "reason": reason, "fields": fields, "framing": fr["lines"],
            "extra": extra, "bw": bw, "cls": cls, "eol": eol, "close_after": close_after}


def resp_bytes(r):
    line = r["version"] + b" %d" % r["status"] + ((b" " + r["reason"]) if r["reason"] else b"")
    lines = r["fields"] + r["extra"] + _fill(r["framing"], _declared_len(r["bw"]))
    eol = r["eol"]
    raw = line + eol + b"".join(l + eol for l in lines) + eol + render_body(r["bw"])
    if r.get("trim") is not None:
        raw = raw[: r["trim"]]
    return raw


# ---- addon edits ---------------------------------------------------------------------------------------------
EDIT_KINDS = ["body", "body-empty", "hdr-add", "hdr-del", "hdr-replace", "body-longer"]


def edits(rnd, nflows):
    """list of [flow ordinal, side, kind, arg]"""
    n = rnd.pick([0, 0, 0, 1, 1, 2, 3])
    out = []
    for _ in range(n):
        out.append([rnd.int(0, max(nflows - 1, 0)), rnd.pick(["request", "response"]),
                    rnd.pick(EDIT_KINDS), rnd.pick([b"", b"E", b"edited-body", b"z" * 70])])
    return out


def apply_edit(msg, kind, arg):
    """msg is a mitmproxy http.Request/Response; only uses the public addon API"""
    if kind == "body":
        msg.content = arg
    elif kind == "body-empty":
        msg.content = b""
    elif kind == "body-longer":
        msg.content = (msg.raw_content or b"") + b"+more" + arg
    elif kind == "hdr-add":
        msg.headers.add("X-Added", "yes")
    elif kind == "hdr-del":
        msg.headers.pop("X-A", None)
    elif kind == "hdr-replace":
        msg.headers["Accept"] = "edited/" + arg.decode("latin-1")
