"""Small PRNG-driven generators shared by the data-model checks (C31..C35), for use with runner.fast(ctx, build, fn, n).
`rnd` is a random.Random seeded by the runner (pure function of VERIF_SEED, shard and case index).
Hypothesis' per-draw overhead was 4-5 ms/case for these checks against 0.1-0.5 ms for the oracle itself."""


def pick(rnd, seq):
    return seq[rnd.randrange(len(seq))]


def text(rnd, alphabet, lo, hi):
    return "".join(alphabet[rnd.randrange(len(alphabet))] for _ in range(rnd.randint(lo, hi)))


def small(rnd, hi):
    """length in 0..hi biased to small values (min of two draws)"""
    return min(rnd.randint(0, hi), rnd.randint(0, hi))


def uni_char(rnd):
    """a Unicode scalar value, all planes, never a surrogate"""
    r = rnd.random()
    if r < 0.25:
        return chr(rnd.randint(0x20, 0x7E))
    if r < 0.45:
        return chr(rnd.randint(0xA0, 0xFF))
    if r < 0.75:
        c = rnd.randint(0x100, 0xFFFF - 0x800)
        if c >= 0xD800:
            c += 0x800
        return chr(c)
    if r < 0.93:
        return chr(rnd.randint(0x10000, 0x10FFFF))
    return chr(rnd.randint(0, 0x1F))


def uni_text(rnd, lo, hi):
    return "".join(uni_char(rnd) for _ in range(rnd.randint(lo, hi)))


def rbytes(rnd, lo, hi):
    return rnd.randbytes(rnd.randint(lo, hi))


def surrogate_text(rnd, lo, hi):
    """what bytes.decode('utf-8', 'surrogateescape') gives for random bytes"""
    return rbytes(rnd, lo, hi).decode("utf-8", "surrogateescape")


def canon(s):
    """adjacent surrogate-escaped bytes from different pieces may form valid UTF-8; re-decode so that the string is what
    bytes.decode('utf-8', 'surrogateescape') would really produce"""
    try:
        return s.encode("utf-8", "surrogateescape").decode("utf-8", "surrogateescape")
    except UnicodeEncodeError:
        return s
