"""Harness for the proxy-mode properties (C19, C20, C21, C24).

* ``Env``          one ``taddons.context`` per process holding *real* addon instances (NextLayer, ProxyAuth,
                   UpstreamAuth, optionally TlsConfig).  ``Env.configure(**opts)`` resets every option to its default
                   and applies ``opts`` (the addons' ``configure`` hooks run exactly as in mitmproxy).
* ``AddonDriver``  ``driver.Driver`` whose hook policy dispatches every StartHook synchronously to the addon chain
                   (what ``master.addons.handle_lifecycle`` does for sync hooks), with optional per-case overrides.
* ``Recorder``     passive leaf layer recording what a mode layer hands to its child.
* small *independent* helpers: HTTP/1 message-stream parser, TLS ClientHello builder (SNI/ALPN), in-memory
  HTTP/1 origin and CONNECT-proxy peers, ``ssl.MemoryBIO`` TLS endpoints.

Nothing in here imports mitmproxy's own parsers for the oracle side.
"""
from __future__ import annotations

import os
import shutil
import struct
import tempfile

from mitmproxy import connection
from mitmproxy.proxy import commands, events, layer
from mitmproxy.proxy.layers import modes
from mitmproxy.proxy.mode_specs import ProxyMode
from mitmproxy.test import taddons

import driver
from driver import HOLD, Driver  # noqa: F401  (re-exported)


# ------------------------------------------------------------------------------------------------ environment
class Env:
    _inst = None

    def __init__(self, tls: bool = False):
        from mitmproxy.addons.next_layer import NextLayer
        from mitmproxy.addons.proxyauth import ProxyAuth
        from mitmproxy.addons.upstream_auth import UpstreamAuth

        self.opts = driver.make_options()
        self.next_layer = NextLayer()
        self.proxyauth = ProxyAuth()
        self.upstream_auth = UpstreamAuth()
        addons = [self.next_layer, self.proxyauth, self.upstream_auth]
        self.tmp = None
        self.tlsconfig = None
        if tls:
            from mitmproxy.addons.tlsconfig import TlsConfig
            self.tmp = tempfile.mkdtemp(prefix="verif-modes-", dir="/dev/shm" if os.path.isdir("/dev/shm") else "/var/tmp")
            self.tlsconfig = TlsConfig()
            addons.append(self.tlsconfig)
        self.tctx = taddons.context(*addons, options=self.opts)
        self.chain = list(self.tctx.master.addons.chain)
        self.base = {}
        if tls:
            self.base["confdir"] = self.tmp
            self.opts.update(confdir=self.tmp)   # before anything else can make TlsConfig look at ~/.mitmproxy
        self.addon_errors = []
        import atexit
        atexit.register(self.close)

    @classmethod
    def get(cls, tls: bool = False) -> "Env":
        if cls._inst is None or (tls and cls._inst.tlsconfig is None):
            if cls._inst is not None:
                cls._inst.close()
            cls._inst = cls(tls)
        return cls._inst

    def configure(self, **kw):
        """every option back to its default except base + kw, in ONE update (the addons are re-configured through the
        options signal, exactly as in mitmproxy).  Options that keep their value are not touched (no CA reload)."""
        self.addon_errors = []
        want = dict(self.base)
        want.update(kw)
        upd = {}
        for k in self.opts.keys():
            if k in want:
                if getattr(self.opts, k) != want[k]:
                    upd[k] = want[k]
            elif self.opts.has_changed(k):
                upd[k] = self.opts.default(k)
        if upd:
            self.opts.update(**upd)
        # per-connection state of the addons must not leak between cases
        self.proxyauth.authenticated.clear()

    def dispatch(self, hook):
        """synchronous equivalent of AddonManager.trigger_event: every addon in chain order inside safecall():
        an exception raised by a hook is logged and swallowed (recorded in addon_errors) and the next addon runs;
        AddonHalt stops the chain; OptionsError propagates (as safecall re-raises it)."""
        from mitmproxy import exceptions
        am = self.tctx.master.addons
        for a in self.chain:
            try:
                am.invoke_addon_sync(a, hook)
            except exceptions.AddonHalt:
                return
            except exceptions.OptionsError:
                raise
            except Exception as e:  # safecall(): "Addon error: ..." is logged, processing continues
                self.addon_errors.append((hook.name, e))

    def close(self):
        try:
            loop = self.tctx.master.event_loop
            if not loop.is_closed():
                loop.close()
        except Exception:
            pass
        if self.tmp:
            shutil.rmtree(self.tmp, ignore_errors=True)
            self.tmp = None
        if Env._inst is self:
            Env._inst = None


def make_context(env: Env, mode: str, transport="tcp", peername=("192.0.2.10", 50123), sockname=("127.0.0.1", 8080)):
    return driver.make_context(env.opts, transport=transport, peername=peername, sockname=sockname, mode=mode)


def top_layer(ctx) -> layer.Layer:
    """the top layer mode_servers.*Instance.make_top_layer builds for the client's proxy mode"""
    from mitmproxy.proxy import mode_specs as ms
    m = ctx.client.proxy_mode
    if isinstance(m, ms.RegularMode):
        return modes.HttpProxy(ctx)
    if isinstance(m, ms.UpstreamMode):
        return modes.HttpUpstreamProxy(ctx)
    if isinstance(m, ms.ReverseMode):
        return modes.ReverseProxy(ctx)
    if isinstance(m, ms.Socks5Mode):
        return modes.Socks5Proxy(ctx)
    if isinstance(m, (ms.TransparentMode, ms.WireGuardMode, ms.LocalMode, ms.TunMode)):
        return modes.TransparentProxy(ctx)
    raise ValueError("no top layer for %r" % (m,))


class AddonDriver(Driver):
    """Driver whose hooks are answered by the real addons of ``env`` (then by ``after``, an optional callable
    emulating a user addon registered behind the builtin ones; ``before`` emulates one registered in front)."""

    def __init__(self, env: Env, ctx, top=None, before=None, after=None, hold=None, conn_policy=None, echo_close=True):
        self.env = env
        self.before = before
        self.after = after
        self.hold = hold  # callable(hook) -> bool
        super().__init__(ctx, top if top is not None else top_layer(ctx), hook_policy=self._policy,
                         conn_policy=conn_policy, echo_close=echo_close)

    def _policy(self, cmd):
        if self.before:
            self.before(cmd)
        self.env.dispatch(cmd)
        if self.after:
            self.after(cmd)
        if self.hold and cmd.blocking and self.hold(cmd):
            return HOLD
        return None

    def closed(self, conn) -> bool:
        return any(t[0] == "close" and t[1] is conn and not t[2] for t in self.trace)


class Recorder(layer.Layer):
    """leaf layer that only records: ("start", server address) ("data", from_client, bytes) ("closed", from_client)"""

    def __init__(self, context, log: list):
        super().__init__(context)
        self.log = log

    def _handle_event(self, event):
        if isinstance(event, events.Start):
            self.log.append(("start", self.context.server.address))
        elif isinstance(event, events.DataReceived):
            self.log.append(("data", event.connection is self.context.client, event.data))
        elif isinstance(event, events.ConnectionClosed):
            self.log.append(("closed", event.connection is self.context.client))
        yield from ()


def segments(data: bytes, cuts) -> list[bytes]:
    """cut data at the given offsets (any ints; taken modulo len, deduplicated, sorted)"""
    n = len(data)
    if n < 2:
        return [data] if data else []
    pts = sorted({c % n for c in cuts} - {0})
    out, last = [], 0
    for p in pts:
        out.append(data[last:p])
        last = p
    out.append(data[last:])
    return out


# ------------------------------------------------------------------------------------------------ HTTP/1 (independent)
class H1Msg:
    __slots__ = ("start", "headers", "body", "method", "target", "version", "status", "raw_head")

    def get_all(self, name: str):
        n = name.lower().encode()
        return [v for k, v in self.headers if k.lower() == n]

    def __repr__(self):
        return "H1Msg(%r, %r, body=%d)" % (self.start, self.headers, len(self.body or b""))


class H1Incomplete(Exception):
    pass


class H1Bad(Exception):
    pass


def _h1_head(buf: bytes, pos: int):
    end = buf.find(b"\r\n\r\n", pos)
    if end < 0:
        raise H1Incomplete()
    lines = buf[pos:end].split(b"\r\n")
    m = H1Msg()
    m.raw_head = buf[pos:end + 4]
    m.start = lines[0]
    m.headers = []
    for ln in lines[1:]:
        if b":" not in ln:
            raise H1Bad("field line without colon: %r" % ln)
        k, v = ln.split(b":", 1)
        if not k or k != k.strip():
            raise H1Bad("bad field name %r" % k)
        m.headers.append((k, v.strip(b" \t")))
    m.method = m.target = m.version = m.status = None
    m.body = b""
    return m, end + 4


def _h1_body(buf: bytes, pos: int, m: H1Msg, no_body: bool, until_close_ok: bool):
    te = [v.lower() for v in m.get_all("transfer-encoding")]
    cl = m.get_all("content-length")
    if no_body:
        return pos
    if te and te[-1].split(b",")[-1].strip() == b"chunked":
        body = b""
        while True:
            e = buf.find(b"\r\n", pos)
            if e < 0:
                raise H1Incomplete()
            try:
                size = int(buf[pos:e].split(b";")[0].strip(), 16)
            except ValueError:
                raise H1Bad("chunk size %r" % buf[pos:e])
            pos = e + 2
            if size == 0:
                # trailers
                while True:
                    e = buf.find(b"\r\n", pos)
                    if e < 0:
                        raise H1Incomplete()
                    line = buf[pos:e]
                    pos = e + 2
                    if not line:
                        m.body = body
                        return pos
            if len(buf) < pos + size + 2:
                raise H1Incomplete()
            body += buf[pos:pos + size]
            if buf[pos + size:pos + size + 2] != b"\r\n":
                raise H1Bad("chunk not terminated")
            pos += size + 2
    if cl:
        if len(set(cl)) != 1 or not cl[0].isdigit():
            raise H1Bad("content-length %r" % cl)
        n = int(cl[0])
        if len(buf) < pos + n:
            raise H1Incomplete()
        m.body = buf[pos:pos + n]
        return pos + n
    if until_close_ok:
        m.body = buf[pos:]
        return len(buf)
    return pos


def parse_one_request(buf: bytes, pos: int = 0):
    """-> (H1Msg, end offset) or None if incomplete.  Raises H1Bad."""
    try:
        m, p = _h1_head(buf, pos)
        parts = m.start.split(b" ")
        if len(parts) != 3 or not parts[2].startswith(b"HTTP/1."):
            raise H1Bad("request line %r" % m.start)
        m.method, m.target, m.version = parts
        p = _h1_body(buf, p, m, m.method == b"CONNECT", False)
    except H1Incomplete:
        return None
    return m, p


def parse_requests(buf: bytes):
    """-> (complete requests, unparsed rest).  Raises H1Bad if the stream is not a sequence of HTTP/1 requests.
    Stops after a CONNECT (what follows is tunnel content)."""
    out, pos = [], 0
    while pos < len(buf):
        r = parse_one_request(buf, pos)
        if r is None:
            break
        m, pos = r
        out.append(m)
        if m.method == b"CONNECT":
            break
    return out, buf[pos:]


def parse_responses(buf: bytes, methods, eof=False):
    """responses to the given request methods -> (complete responses, rest)"""
    out, pos = [], 0
    i = 0
    while pos < len(buf) and i < len(methods):
        try:
            m, p = _h1_head(buf, pos)
            parts = m.start.split(b" ", 2)
            if len(parts) < 2 or not parts[0].startswith(b"HTTP/1.") or not parts[1].isdigit():
                raise H1Bad("status line %r" % m.start)
            m.version, m.status = parts[0], int(parts[1])
            if 100 <= m.status < 200 and m.status != 101:
                pos = p
                continue
            meth = methods[i]
            no_body = meth == b"HEAD" or m.status in (204, 304) or (meth == b"CONNECT" and 200 <= m.status < 300)
            p = _h1_body(buf, p, m, no_body, eof)
        except H1Incomplete:
            break
        out.append(m)
        pos = p
        i += 1
        if methods[i - 1] == b"CONNECT" and 200 <= m.status < 300:
            break
    return out, buf[pos:]


# ------------------------------------------------------------------------------------------------ TLS ClientHello
def client_hello(sni: bytes | None, alpn=(), record_splits=(), version=b"\x03\x03", session_id=b"",
                 sni_type=0) -> bytes:
    """A TLS ClientHello (RFC 8446 section 4.1.2 / RFC 6066 section 3 / RFC 7301) wrapped in handshake record(s).
    record_splits: offsets at which the handshake message is cut into several records."""
    exts = b""
    if sni is not None:
        name = bytes([sni_type]) + struct.pack("!H", len(sni)) + sni
        lst = struct.pack("!H", len(name)) + name
        exts += struct.pack("!HH", 0, len(lst)) + lst
    if alpn:
        protos = b"".join(bytes([len(p)]) + p for p in alpn)
        body = struct.pack("!H", len(protos)) + protos
        exts += struct.pack("!HH", 16, len(body)) + body
    # supported_groups + signature_algorithms so that a real TLS stack would also accept the hello
    exts += struct.pack("!HHH", 10, 4, 2) + b"\x00\x17"
    exts += struct.pack("!HHH", 13, 4, 2) + b"\x04\x03"
    body = (version + bytes(range(32)) + bytes([len(session_id)]) + session_id
            + struct.pack("!H", 4) + b"\xc0\x2f\x00\x9c" + b"\x01\x00"
            + struct.pack("!H", len(exts)) + exts)
    hs = b"\x01" + len(body).to_bytes(3, "big") + body
    parts = segments(hs, record_splits) if record_splits else [hs]
    return b"".join(b"\x16\x03\x01" + struct.pack("!H", len(p)) + p for p in parts)


# ------------------------------------------------------------------------------------------------ in-memory peers
class Origin:
    """HTTP/1 origin server attached to one driver connection: records the bytes, answers every complete request."""

    def __init__(self, d: Driver, conn, respond=True, body=b"ok"):
        self.d, self.conn = d, conn
        self.buf = bytearray()
        self.requests = []
        self.bad = None
        self.respond = respond
        self.body = body
        self._consumed = 0
        d.on_send[conn] = self.on_data

    def on_data(self, data: bytes):
        self.buf += data
        try:
            reqs, rest = parse_requests(bytes(self.buf[self._consumed:]))
        except H1Bad as e:
            self.bad = e
            return
        self._consumed = len(self.buf) - len(rest)
        for r in reqs:
            self.requests.append(r)
            if self.respond:
                if r.method == b"CONNECT":
                    self.d.recv(self.conn, b"HTTP/1.1 200 OK\r\n\r\n")
                else:
                    self.d.recv(self.conn, b"HTTP/1.1 200 OK\r\ncontent-length: %d\r\n\r\n%s" % (
                        len(self.body), b"" if r.method == b"HEAD" else self.body))


# ------------------------------------------------------------------------------------------------ TLS endpoints
class TestPki:
    """self-signed EC server certificate for the in-memory origin / proxy peers (mitmproxy runs with ssl_insecure)"""
    _inst = None

    def __init__(self):
        import atexit
        import datetime
        import ssl
        from cryptography import x509
        from cryptography.hazmat.primitives import hashes, serialization
        from cryptography.hazmat.primitives.asymmetric import ec
        from cryptography.x509.oid import NameOID

        key = ec.generate_private_key(ec.SECP256R1())
        name = x509.Name([x509.NameAttribute(NameOID.COMMON_NAME, "verif-peer")])
        # fixed validity window: no wall clock in the checks (mitmproxy does not verify: ssl_insecure)
        nb = datetime.datetime(2020, 1, 1)
        cert = (x509.CertificateBuilder().subject_name(name).issuer_name(name).public_key(key.public_key())
                .serial_number(1000).not_valid_before(nb).not_valid_after(datetime.datetime(2099, 1, 1))
                .add_extension(x509.SubjectAlternativeName([x509.DNSName("*.example"), x509.DNSName("origin.example")]), False)
                .sign(key, hashes.SHA256()))
        self.dir = tempfile.mkdtemp(prefix="verif-pki-", dir="/dev/shm" if os.path.isdir("/dev/shm") else "/var/tmp")
        self.certfile = os.path.join(self.dir, "peer.pem")
        with open(self.certfile, "wb") as f:
            f.write(key.private_bytes(serialization.Encoding.PEM, serialization.PrivateFormat.TraditionalOpenSSL,
                                      serialization.NoEncryption()))
            f.write(cert.public_bytes(serialization.Encoding.PEM))
        self.server_ctx = ssl.SSLContext(ssl.PROTOCOL_TLS_SERVER)
        self.server_ctx.load_cert_chain(self.certfile)
        self.server_ctx.set_alpn_protocols(["http/1.1"])
        self.client_ctx = ssl.SSLContext(ssl.PROTOCOL_TLS_CLIENT)
        self.client_ctx.check_hostname = False
        self.client_ctx.verify_mode = ssl.CERT_NONE
        self.client_ctx.set_alpn_protocols(["http/1.1"])
        self.client_ctx_h2 = ssl.SSLContext(ssl.PROTOCOL_TLS_CLIENT)
        self.client_ctx_h2.check_hostname = False
        self.client_ctx_h2.verify_mode = ssl.CERT_NONE
        self.client_ctx_h2.set_alpn_protocols(["h2", "http/1.1"])
        atexit.register(self.close)

    @classmethod
    def get(cls) -> "TestPki":
        if cls._inst is None:
            cls._inst = cls()
        return cls._inst

    def close(self):
        if self.dir:
            shutil.rmtree(self.dir, ignore_errors=True)
            self.dir = None
        if TestPki._inst is self:
            TestPki._inst = None


class _Tls:
    """one ssl.MemoryBIO endpoint"""

    def __init__(self, server_side: bool, sni=None, h2=False):
        import ssl
        pki = TestPki.get()
        self.inc, self.out = ssl.MemoryBIO(), ssl.MemoryBIO()
        if server_side:
            self.obj = pki.server_ctx.wrap_bio(self.inc, self.out, server_side=True)
        else:
            self.obj = (pki.client_ctx_h2 if h2 else pki.client_ctx).wrap_bio(self.inc, self.out, server_hostname=sni)
        self.done = False
        self.error = None

    def pump(self, data: bytes = b""):
        """feed ciphertext; -> (plaintext received, ciphertext to send)"""
        import ssl
        if data:
            self.inc.write(data)
        plain = b""
        try:
            if not self.done:
                self.obj.do_handshake()
                self.done = True
            while True:
                chunk = self.obj.read(65536)
                if not chunk:
                    break
                plain += chunk
        except (ssl.SSLWantReadError, ssl.SSLWantWriteError):
            pass
        except ssl.SSLError as e:
            self.error = e
        except ssl.SSLZeroReturnError:
            pass
        return plain, self.out.read()

    def encrypt(self, plain: bytes) -> bytes:
        self.obj.write(plain)
        return self.out.read()


class HttpEndpoint:
    """Server side of one byte stream: TLS auto-detected (first byte 0x16), then HTTP/1 requests; a CONNECT is
    answered with 200 and turns the rest of the stream into a nested endpoint (tunnel).  Every request seen at any
    depth is appended to ``log`` as (label, tls_depth, H1Msg); every plaintext byte to ``plain[label]``."""

    def __init__(self, send, label: str, log: list, plain: dict, tls_depth=0, body=b"ok"):
        self.send, self.label, self.log, self.plain = send, label, log, plain
        self.tls = None
        self.tls_depth = tls_depth
        self.started = False
        self.buf = b""
        self.inner = None
        self.bad = None
        self.body = body

    def feed(self, data: bytes):
        if not data:
            return
        if not self.started:
            self.started = True
            if data[0] == 0x16:
                self.tls = _Tls(True)
                self.tls_depth += 1
                self.label += "+tls"
        if self.tls is not None:
            data, reply = self.tls.pump(data)
            if reply:
                self.send(reply)
            if not data:
                return
        if self.inner is not None:
            self.inner.feed(data)
            return
        self.plain[self.label] = self.plain.get(self.label, b"") + data
        self.buf += data
        while self.buf and self.inner is None:
            try:
                got = parse_one_request(self.buf)
            except H1Bad as e:
                self.bad = e
                return
            if got is None:
                return
            r, consumed = got
            self.buf = self.buf[consumed:]
            self.log.append((self.label, self.tls_depth, r))
            if r.method == b"CONNECT":
                self.send_plain(b"HTTP/1.1 200 Connection established\r\n\r\n")
                self.inner = HttpEndpoint(self.send_plain, self.label + ">tunnel", self.log, self.plain, self.tls_depth, self.body)
                rest, self.buf = self.buf, b""
                self.inner.feed(rest)
            else:
                self.send_plain(b"HTTP/1.1 200 OK\r\ncontent-length: %d\r\n\r\n%s" % (
                    len(self.body), b"" if r.method == b"HEAD" else self.body))

    def send_plain(self, data: bytes):
        if self.tls is not None:
            data = self.tls.encrypt(data)
        self.send(data)


class TlsClient:
    """TLS client on the driver's client connection (optionally nested inside an established tunnel)."""

    def __init__(self, d: Driver, conn, sni: str, h2: bool = False):
        """h2: offer ALPN h2 + http/1.1 (otherwise http/1.1 only); see alpn() after the handshake"""
        self.d, self.conn = d, conn
        self.tls = _Tls(False, sni, h2)
        self.pos = len(d.out(conn))
        self.plain_in = b""

    def _exchange(self, to_send: bytes):
        for _ in range(20):
            if to_send:
                self.d.recv(self.conn, to_send)
            new = self.d.out(self.conn)[self.pos:]
            self.pos += len(new)
            if not new and not to_send:
                return
            plain, to_send = self.tls.pump(new)
            self.plain_in += plain
            if not new and not to_send:
                return

    def handshake(self) -> bool:
        _, hello = self.tls.pump()
        self._exchange(hello)
        return self.tls.done

    def send(self, plain: bytes):
        self._exchange(self.tls.encrypt(plain))

    def alpn(self):
        return self.tls.obj.selected_alpn_protocol()


class H2Client:
    """HTTP/2 client (independent hyper-h2 connection, lib/h2peer.py) speaking through a TlsClient"""

    def __init__(self, t: "TlsClient"):
        from h2peer import H2Peer
        self.t = t
        self.peer = H2Peer(client_side=True)
        self.pos = len(t.plain_in)
        self.peer.start()
        self._pump()
        self.next_sid = 1

    def _pump(self):
        for _ in range(10):
            out = self.peer.take()
            if out:
                self.t.send(out)
            new = self.t.plain_in[self.pos:]
            self.pos += len(new)
            if new:
                self.peer.receive(new)
            elif not out:
                return

    def request(self, headers, body=b""):
        """-> stream id; headers: list of (bytes, bytes) incl. pseudo-headers, sent as given (no validation)"""
        sid = self.next_sid
        self.next_sid += 2
        self.peer.send_headers(sid, headers, end_stream=not body)
        if body:
            self.peer.send_data(sid, body, end_stream=True)
        self._pump()
        return sid

    def response(self, sid):
        return self.peer.streams.get(sid)
