"""Reference model of a SOCKS5 acceptor, written from RFC 1928 (protocol) and RFC 1929 (username/password).

Shares no code with mitmproxy.  ``model(stream, ...)`` consumes the complete client byte stream and says what a
conforming server that supports only CONNECT may do; ``judge(expect, obs)`` compares an observation of the real
layer with it.  Where the RFCs leave the server a choice the model is a *set* of acceptable outcomes:

* VER != 1 in the RFC 1929 sub-negotiation ("is X'01'"): a server may reject or be lenient; both are accepted
  (``strict_auth`` flag).  RSV != 0 in the RFC 1928 request is NOT such a choice: section 4 says "Fields marked
  RESERVED (RSV) must be set to X'00'", the property demands the handshake be "parsed exactly", so a request with a
  non-zero reserved octet is malformed and must be rejected (no REP code is defined for it: any failure reply or
  none).  ``models()`` therefore always uses strict_rsv=True.
* A stream that is still incomplete may be answered by "wait for more" or, if the prefix is already invalid, by a
  rejection.
* A zero-length domain name may be rejected or connected to as the empty name.

RFC 1928 section 3: client greeting  VER(05) NMETHODS METHODS[n];  server  VER METHOD  (METHOD FF = none acceptable,
client must close).  Section 4: request  VER CMD RSV ATYP DST.ADDR DST.PORT  with ATYP 01 (4 bytes) 03 (len + name)
04 (16 bytes).  Section 6: reply  VER REP RSV ATYP BND.ADDR BND.PORT,  REP 00 success, 07 command not supported,
08 address type not supported; after a failure reply the server closes.
RFC 1929: VER(01) ULEN UNAME PLEN PASSWD -> VER STATUS (00 success, anything else failure + close).
"""
from __future__ import annotations

import ipaddress

PENDING, REJECT, CONNECT = "pending", "reject", "connect"


class Expect:
    """what the acceptor may do for one stream under one leniency choice"""

    def __init__(self):
        self.prefix = b""        # replies that must have been sent, in order, before the final one
        self.state = PENDING      # PENDING: waiting for more bytes;  REJECT: must close, must not connect;  CONNECT
        self.may_reject = False   # PENDING only: the prefix is already invalid, an early rejection is fine too
        self.method_fail = False  # REJECT: the 05 FF method selection is the final reply
        self.auth_fail = False    # REJECT: the 01 xx (xx != 0) status is the final reply
        self.rep_codes = None     # REJECT at the request stage: set of acceptable REP codes; empty set = any/none
        self.atyp = None
        self.addr = None          # raw DST.ADDR bytes (without the length octet for domains)
        self.port = None
        self.rest = b""           # bytes after the request: to be relayed
        self.user = self.password = None
        self.may_reject_connect = False  # CONNECT with an unusable destination (empty name): rejecting is fine too
        self.klass = ""           # input class, for bucketing / histograms

    def __repr__(self):
        return "Expect(%s)" % ", ".join("%s=%r" % kv for kv in sorted(self.__dict__.items()))


def model(stream: bytes, auth_required: bool, cred_ok, strict_auth: bool, strict_rsv: bool) -> Expect:
    """cred_ok(user_bytes, password_bytes) -> bool.  strict_*: reject sub-negotiation VER != 1 / request RSV != 0."""
    e = Expect()
    s = stream
    # ---- greeting
    if len(s) >= 1 and s[0] != 5:
        # not SOCKS5 at all. No reply is defined. A server may wait for the second octet before deciding.
        e.klass = "greet-badver"
        if len(s) < 2:
            e.state, e.may_reject = PENDING, True
        else:
            e.state, e.rep_codes = REJECT, set()
        return e
    if len(s) < 2 or len(s) < 2 + s[1]:
        e.klass = "greet-short"
        return e
    n = s[1]
    methods = s[2:2 + n]
    want = 2 if auth_required else 0
    if want not in methods:
        e.klass = "greet-nomethod" if n else "greet-zero-methods"
        e.state, e.method_fail = REJECT, True
        return e
    e.prefix += bytes([5, want])
    s = s[2 + n:]
    # ---- RFC 1929
    if auth_required:
        if len(s) >= 1 and s[0] != 1 and strict_auth:
            e.klass = "auth-badver"
            e.state, e.auth_fail = REJECT, True
            return e
        lenient_auth = len(s) >= 1 and s[0] != 1
        if len(s) < 2 or len(s) < 2 + s[1] + 1 or len(s) < 2 + s[1] + 1 + s[2 + s[1]]:
            e.klass = "auth-short"
            e.may_reject = lenient_auth
            return e
        ul = s[1]
        pl = s[2 + ul]
        e.user, e.password = s[2:2 + ul], s[3 + ul:3 + ul + pl]
        if not cred_ok(e.user, e.password):
            e.klass = "auth-wrong"
            e.state, e.auth_fail = REJECT, True
            return e
        e.prefix += b"\x01\x00"
        s = s[3 + ul + pl:]
        if lenient_auth:
            e.klass = "auth-badver-lenient,"
    # ---- request
    hard = set()     # errors with a REP code defined by RFC 1928 section 6
    badver = False
    lenient_rsv = False
    if len(s) >= 1 and s[0] != 5:
        badver = True
    if len(s) >= 2 and s[1] != 1:
        hard.add(7)
    if len(s) >= 3 and s[2] != 0:
        if strict_rsv:
            badver = True  # no code defined for a malformed reserved octet: any failure reply / none
        else:
            lenient_rsv = True
    if len(s) >= 4 and s[3] not in (1, 3, 4):
        hard.add(8)
    invalid = badver or bool(hard)
    need = None
    if len(s) >= 4 and s[3] in (1, 4):
        need = 4 + (4 if s[3] == 1 else 16) + 2
    elif len(s) >= 5 and s[3] == 3:
        need = 4 + 1 + s[4] + 2
    if invalid:
        # A server may decide as soon as the offending octet is there, or only after it has read the full request.
        # An unknown ATYP has no defined length: it must be decided once one octet after ATYP has been seen.
        if 8 in hard:
            complete = len(s) >= 5
        else:
            complete = need is not None and len(s) >= need
        e.klass += "req-" + ("badver" if s[0] != 5 else "cmd%d" % s[1] if 7 in hard else "atyp" if 8 in hard else "rsv")
        e.rep_codes = set() if badver else hard
        if complete:
            e.state = REJECT
        else:
            e.state, e.may_reject = PENDING, True
        return e
    if need is None or len(s) < need:
        e.klass += "req-short"
        return e
    e.atyp = s[3]
    e.addr = s[4:need - 2] if e.atyp != 3 else s[5:need - 2]
    e.port = (s[need - 2] << 8) | s[need - 1]
    e.rest = s[need:]
    e.state = CONNECT
    e.klass += {1: "ipv4", 3: "domain", 4: "ipv6"}[e.atyp]
    if lenient_rsv:
        e.klass += ",rsv-lenient"
    if e.atyp == 3:
        if len(e.addr) == 0:
            e.may_reject_connect = True
            e.klass += "-empty"
        elif any(c >= 0x80 for c in e.addr):
            e.klass += "-nonascii"
    return e


def models(stream: bytes, auth_required: bool, cred_ok) -> list:
    """the acceptable expectations for a stream: one per distinguishable leniency choice (lenient/lenient first)"""
    out, seen = [], set()
    for sa in (False, True):
        for sr in (True,):
            e = model(stream, auth_required, cred_ok, sa, sr)
            k = (e.state, e.prefix, e.rest, e.auth_fail, e.may_reject, repr(sorted(e.rep_codes)) if e.rep_codes is not None else None,
                 e.atyp, e.addr, e.port)
            if k not in seen:
                seen.add(k)
                out.append(e)
    return out


def parse_reply(b: bytes):
    """-> (rep, atyp, addr, port, consumed) or None if b does not start with a well-formed RFC 1928 reply"""
    if len(b) < 4 or b[0] != 5 or b[2] != 0:
        return None
    atyp = b[3]
    if atyp == 1:
        n = 4
        off = 4
    elif atyp == 4:
        n = 16
        off = 4
    elif atyp == 3:
        if len(b) < 5:
            return None
        n = b[4]
        off = 5
    else:
        return None
    if len(b) < off + n + 2:
        return None
    return b[1], atyp, b[off:off + n], (b[off + n] << 8) | b[off + n + 1], off + n + 2


def host_matches(e: Expect, host) -> bool | None:
    """does the textual host the server connects to denote DST.ADDR?  None = not decidable (non-ASCII name)"""
    if not isinstance(host, str):
        return False
    if e.atyp == 1:
        try:
            return ipaddress.IPv4Address(host).packed == e.addr
        except ValueError:
            return False
    if e.atyp == 4:
        try:
            return ipaddress.IPv6Address(host).packed == e.addr
        except ValueError:
            return False
    if any(c >= 0x80 for c in e.addr):
        return None
    return host == e.addr.decode("ascii")


class Obs:
    """what the real acceptor did (filled in by the check)"""
    client_out = b""
    closed = False          # the server closed the client connection
    connects = ()           # [(host, port)] connections it tried to open itself
    child_started = False   # the next layer was started (i.e. the handshake succeeded)
    child_addr = None       # destination handed to the next layer
    child_data = b""        # bytes handed to the next layer
    connect_ok = True       # outcome the harness gave to the connection attempt (eager strategy)
    eager = True


def _copy(e: Expect) -> Expect:
    c = Expect()
    c.__dict__.update(e.__dict__)
    return c


def judge(e: Expect, o: Obs):
    """-> list of (clause, message); empty = observation o is acceptable under expectation e"""
    bad = []
    out = o.client_out
    if not out.startswith(e.prefix):
        bad.append(("reply-prefix", "expected replies %r, client got %r" % (e.prefix, out)))
        return bad
    tail = out[len(e.prefix):]

    def no_connect(why):
        if o.connects:
            bad.append(("connect-despite-" + why, "connected to %r" % (o.connects,)))
        if o.child_started or o.child_data:
            bad.append(("relay-despite-" + why, "next layer started=%r data=%r" % (o.child_started, o.child_data)))

    if e.state == PENDING and not (e.may_reject and o.closed):
        if tail or o.closed or o.connects or o.child_started:
            bad.append(("premature", "stream incomplete but server acted: out=%r closed=%r connects=%r child=%r"
                        % (tail, o.closed, o.connects, o.child_started)))
        return bad
    if e.state == PENDING:
        # early rejection of an already invalid prefix: judged like a rejection
        if e.rep_codes is None:
            e = _copy(e)
            e.rep_codes = set()
            if e.klass.startswith("auth"):
                e.auth_fail = True
        e = _copy(e)
        e.state = REJECT
    if e.state == REJECT:
        no_connect("reject")
        if not o.closed:
            bad.append(("reject-not-closed", "connection left open; out=%r" % out))
        if e.method_fail:
            if tail[:2] != b"\x05\xff":
                bad.append(("reject-code-method", "expected method selection 05 FF, got %r" % tail))
        elif e.auth_fail:
            if len(tail) != 2 or tail[0] != 1 or tail[1] == 0:
                bad.append(("reject-code-auth", "expected RFC 1929 failure status 01 xx, got %r" % tail))
        else:
            if tail or e.rep_codes:
                r = parse_reply(tail)
                if r is None or r[4] != len(tail):
                    bad.append(("reject-reply-malformed", "not exactly one well-formed reply: %r" % tail))
                elif r[0] == 0:
                    bad.append(("reject-reply-success", "REP=00 in a rejection: %r" % tail))
                elif e.rep_codes and r[0] not in e.rep_codes:
                    bad.append(("reject-code-request", "REP=%02x, RFC 1928 says one of %s" % (r[0], sorted(e.rep_codes))))
        return bad
    # CONNECT
    rejected = o.closed and not o.child_started
    if rejected and (e.may_reject_connect or (o.eager and not o.connect_ok)):
        # destination unusable / connection attempt failed: failure reply, close, nothing relayed
        for h, p in o.connects:
            if p != e.port or host_matches(e, h) is False:
                bad.append(("connect-wrong-destination", "requested %r:%d, tried %r" % (e.addr, e.port, (h, p))))
        r = parse_reply(tail)
        if r is None or r[4] != len(tail) or r[0] == 0:
            bad.append(("connect-failed-reply", "expected one failure reply, got %r" % tail))
        if o.child_data:
            bad.append(("relay-despite-failed-connect", repr(o.child_data)))
        return bad
    if o.eager and not o.connect_ok:
        bad.append(("connect-failure-ignored", "connection attempt failed but handshake went on: out=%r" % tail))
        return bad
    if o.closed:
        bad.append(("closed-after-valid-request", "out=%r" % out))
    r = parse_reply(tail)
    if r is None or r[4] != len(tail):
        bad.append(("success-reply-malformed", "not exactly one well-formed reply: %r" % tail))
    elif r[0] != 0:
        bad.append(("success-reply-code", "valid request answered with REP=%02x" % r[0]))
    if e.rest and not o.child_started:
        bad.append(("not-relayed", "next layer never received the bytes after the request"))
        return bad
    dests = list(o.connects) + [o.child_addr]
    if o.eager and len(o.connects) != 1:
        bad.append(("connect-count", "eager strategy: expected exactly one connection attempt, got %r" % (o.connects,)))
    for d in dests:
        if not (isinstance(d, (tuple, list)) and len(d) >= 2):
            bad.append(("connect-wrong-destination", "no destination: %r" % (d,)))
            continue
        h, p = d[0], d[1]
        hm = host_matches(e, h)
        if p != e.port or hm is False:
            bad.append(("connect-wrong-destination", "requested atyp=%d %r port %d, used %r" % (e.atyp, e.addr, e.port, d)))
    if o.child_data != e.rest:
        bad.append(("relay-mismatch", "bytes after the request %r, next layer got %r" % (e.rest, o.child_data)))
    return bad
