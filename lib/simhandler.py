"""The real ``ProxyConnectionHandler`` (mitmproxy/proxy/mode_servers.py -> server.ConnectionHandler) inside the
E4 simulator (lib/simloop.py), with a *scripted layer* and a *stub master*.

Plan (JSON-able; all delays in units of simloop.U = 2**-10 s, overshoots in units of 2**-20 s):
    {"timeout": seconds,                       tcp_timeout option
     "overshoots": [int...],                   one per clock jump, then 0
     "client": {"reads": [[delay, item]...], "drains": [[delay, outcome]...], "eof_err": bool},
     "connects": [{"delay", "outcome", "reads", "drains", "eof_err", "close_err"}...],   n-th open_connection call
     "hooks": [[duration, kill, hold]...],     n-th hook handled by the (stub) addon manager: the hook function takes
                                               `duration`; if the hook carries a flow (hooks started by the layer) the
                                               addon then intercepts it and it is resumed after `hold`
     "reactions": [[action...]...],            n-th event delivered to the layer -> commands it returns
     "eager": bool,                            eager task start (as under Master.run) or asyncio's default lazy start
     "client_udp": bool,                       the client connection is a UDP "connection" (no half-close, 20 s timeout)
     "rewrite": None | 0 | 1}                  addon policy: every server_connect hook redirects TCP connections to ADDRS[i]
actions: ["open", addr_index] (0, 1: TCP addresses, 2: UDP address) | ["send", conn_ref, nbytes] | ["close", conn_ref, half] | ["hook", blocking] |
         ["wakeup", delay] | ["log"]
conn_ref: -1 = client, k >= 0 = k-th server connection the layer created (modulo their number).

The scripted layer behaves like a legal layer: it never reuses a Server object, only sends on connections whose
state has CAN_WRITE, only closes connections that are not CLOSED (real layers act on established connections), and
it starts no new upstream connections and requests no wakeups in reaction to a ConnectionClosed or failed
OpenConnectionCompleted event or once the client connection is CLOSED (no mitmproxy layer reconnects/retries when a
connection goes away or cannot be established, neither directly nor after a hook started in reaction to that; hooks, e.g. error hooks,
may still be started).  Without this rule a "layer" could keep creating connection tasks while handle_client tears
the connection down, which handle_client is not designed to survive and real layers never do.
"""
from __future__ import annotations

import asyncio
from dataclasses import dataclass

import simloop
from simloop import U

from mitmproxy import connection, http
from mitmproxy import flow as mflow
from mitmproxy.connection import ConnectionState
from mitmproxy.proxy import commands, events, mode_servers, mode_specs, server_hooks

ADDRS = [("a.test", 80), ("b.test", 443), ("u.test", 53)]  # the third one is reached over UDP
OV_U = 2.0 ** -20


@dataclass
class SimScriptedHook(commands.StartHook):
    """hook started by the scripted layer (stands for http_request, tcp_message, ...)"""
    name = "sim_scripted"
    data: object


_OPTS = None
_MODE = None


def options(timeout):
    global _OPTS, _MODE
    if _OPTS is None:
        from mitmproxy import options as moptions
        _OPTS = moptions.Options()
        _MODE = mode_specs.ProxyMode.parse("regular")
    if _OPTS.tcp_timeout != timeout:
        _OPTS.tcp_timeout = timeout
    return _OPTS, _MODE


class World:
    """everything observable about one simulated client connection"""

    def __init__(self, plan, loop, fault=None):
        self.plan = plan
        self.loop = loop
        self.net = simloop.Net(loop, plan.get("connects", ()), fault)
        self.trace = []  # (time, kind, ...)
        self.servers = []
        self.sidx = {}
        self.nhooks = 0
        self.nevents = 0
        self.handler = None
        self.returned = False
        self.hook_k = {}  # id(hook command) -> index of the hook call
        self.task_server = {}  # open_connection task -> server index
        self.net.on_call = self._on_call

    def _on_call(self, call):
        """which of the layer's Server objects is this open_connection call for? (the calling task is its handler)"""
        call["server"] = self.task_server.get(asyncio.current_task())
        self.log("connect_call", call["server"], call["i"])

    def conn_index(self, conn):
        if conn is self.handler.client:
            return -1
        return self.sidx.get(id(conn))

    def log(self, *rec):
        self.trace.append((self.loop.time(),) + rec)

    # ---- stub master: `await master.addons.handle_lifecycle(hook)`
    @property
    def addons(self):
        return self

    async def handle_lifecycle(self, hook):
        k = self.nhooks
        self.nhooks += 1
        hooks = self.plan.get("hooks", ())
        spec = hooks[k] if k < len(hooks) else (0, False)
        dur, kill = spec[0], spec[1]
        hold = spec[2] if len(spec) > 2 else 0
        (data,) = hook.args()
        self.hook_k[id(hook)] = k
        idx = None
        if isinstance(data, server_hooks.ServerConnectionHookData):
            idx = self.conn_index(data.server)
        self.log("hook", hook.name, idx, k)
        kind = self.net.point("hook:" + hook.name)
        completed = False
        try:
            if kill:
                if hook.name == "client_connected":
                    data.error = "killed by addon"
                elif hook.name == "server_connect":
                    data.server.error = "killed by addon"
            rw = self.plan.get("rewrite")
            if rw is not None and hook.name == "server_connect" and data.server.transport_protocol == "tcp":
                # an addon that redirects upstream connections (documented use of server_connect): whatever address
                # the layer asked for, the connection goes to ADDRS[rw]
                if data.server.address != ADDRS[rw]:
                    data.server.address = ADDRS[rw]
                    self.log("rewrite", idx, rw)
            if dur:
                await asyncio.sleep(dur * U)
            if hold and isinstance(data, mflow.Flow):
                # an addon intercepts the flow; "the user" resumes it after `hold`.  The hook stays pending for the
                # handler until then (handle_hook awaits flow.wait_for_resume() after the addons have run)
                data.intercept()
                self.log("intercept", hook.name, idx, k)
                self.loop.call_later(hold * U, self._resume, data, hook.name, idx, k)
            self.net.after_point(kind)
            completed = True
        finally:
            self.log("hook_end", hook.name, idx, k, completed)  # completed=False: the awaiting task was cancelled

    def _resume(self, flow, name, idx, k):
        self.log("resume", name, idx, k)
        flow.resume()

    # ---- scripted layer: `layer.handle_event(event)`
    def handle_event(self, event):
        k = self.nevents
        self.nevents += 1
        conn = getattr(event, "connection", None)
        if isinstance(event, events.OpenConnectionCompleted):
            conn = event.command.connection
        self.log("event", type(event).__name__, self.conn_index(conn) if conn is not None else None,
                 getattr(event, "reply", None) if isinstance(event, events.OpenConnectionCompleted) else None)
        reactions = self.plan.get("reactions", ())
        out = []
        client_gone = (self.handler.client.state is ConnectionState.CLOSED or isinstance(event, events.ConnectionClosed)
                       or (isinstance(event, events.OpenConnectionCompleted) and event.reply is not None)
                       or (isinstance(event, events.HookCompleted) and getattr(event.command, "tainted", False)))
        for a in (reactions[k] if k < len(reactions) else ()):
            op = a[0]
            if client_gone and op in ("open", "wakeup"):
                continue
            if op == "open":
                s = connection.Server(address=ADDRS[a[1] % len(ADDRS)],
                                      transport_protocol="udp" if a[1] % len(ADDRS) == 2 else "tcp")
                self.sidx[id(s)] = len(self.servers)
                self.servers.append(s)
                out.append(commands.OpenConnection(s))
                self.log("cmd", "open", len(self.servers) - 1, a[1] % len(ADDRS))
            elif op == "send":
                c = self.ref(a[1])
                if c.state & ConnectionState.CAN_WRITE:
                    out.append(commands.SendData(c, b"x" * max(1, a[2])))
                    self.log("cmd", "send", self.conn_index(c))
            elif op == "close":
                c = self.ref(a[1])
                if c.state is not ConnectionState.CLOSED:
                    if a[2] and c.transport_protocol == "tcp":
                        out.append(commands.CloseTcpConnection(c, half_close=True))
                    else:
                        out.append(commands.CloseConnection(c))
                    self.log("cmd", "close", self.conn_index(c), bool(a[2]))
            elif op == "hook":
                h = SimScriptedHook(http.HTTPFlow(self.handler.client, connection.Server(address=None), live=True))
                h.blocking = bool(a[1])
                h.tainted = client_gone  # e.g. an error hook: its completion does not lead to new connections either
                out.append(h)
            elif op == "wakeup":
                out.append(commands.RequestWakeup(a[1] * U))
            elif op == "log":
                out.append(commands.Log("sim"))
        return out

    def ref(self, r):
        if r < 0 or not self.servers:
            return self.handler.client
        return self.servers[r % len(self.servers)]


class Handler(mode_servers.ProxyConnectionHandler):
    """the real handler; only observation is added"""
    world: World

    async def on_timeout(self):
        self.world.log("timeout")
        await super().on_timeout()

    async def handle_hook(self, hook):
        # the real ProxyConnectionHandler.handle_hook; only its completion is recorded (for a flow hook that is after
        # the addons have run AND the flow is no longer intercepted)
        try:
            await super().handle_hook(hook)
        finally:
            w = self.world
            k = w.hook_k.pop(id(hook), None)
            (data,) = hook.args()
            idx = w.conn_index(data.server) if isinstance(data, server_hooks.ServerConnectionHookData) else None
            w.log("hook_done", hook.name, idx, k)

    async def open_connection(self, command):
        self.world.task_server[asyncio.current_task()] = self.world.conn_index(command.connection)
        return await super().open_connection(command)


def _observe_slots(h, w):
    """log when a connection task has to queue for its address' max_conns semaphore.  Observation only: the handler
    keeps its own `max_conns` mapping and its own default factory creates every semaphore; the factory is merely
    wrapped so that the semaphore's acquire() reports a wait."""
    orig_factory = h.max_conns.default_factory

    def factory():
        sem = orig_factory()
        orig = sem.acquire

        async def acquire():
            if sem.locked():
                w.log("slot_wait", w.task_server.get(asyncio.current_task()))
            return await orig()

        sem.acquire = acquire
        return sem

    h.max_conns.default_factory = factory


def run_plan(plan, fault=None, max_iter=60_000):
    """Run handle_client for one plan (optionally with one injected fault).  Returns (world, outcome)."""
    box = {}

    def setup(loop):
        w = World(plan, loop, fault)
        box["w"] = w
        return simloop.patched(loop, w.net)

    async def main(loop):
        w = box["w"]
        c = plan.get("client", {})
        r, wr = w.net.make_client(c.get("reads", ()), c.get("drains", ()), c.get("eof_err", False),
                                  udp=plan.get("client_udp", False))
        opts, mode = options(plan.get("timeout", 10))
        h = Handler(w, r, wr, opts, mode)
        h.world = w
        w.handler = h
        h.layer = w
        _observe_slots(h, w)
        await h.handle_client()
        w.returned = True
        w.log("returned")
        # hooks started by the layer are not awaited by handle_client; let them (and wakeups requested on their
        # completion) complete - they are finite - so that what they trigger on the finished handler is observed too
        for _ in range(4):
            pend = [t for t in loop.tasks if not t.done() and t.get_name().startswith(("handle_hook(", "wakeup timer"))]
            if not pend:
                break
            await asyncio.wait(pend, timeout=4000)

    out = simloop.run(main, overshoots=[x * OV_U for x in plan.get("overshoots", ())], max_iter=max_iter, setup=setup,
                      eager=plan.get("eager", False))
    return box["w"], out


# ---------------------------------------------------------------------------------------------- plan generator
class Tape:
    """decision tape: one generated byte per decision; an exhausted tape yields 0 = the simplest choice"""
    __slots__ = ("d", "i")

    def __init__(self, data):
        self.d = data
        self.i = 0

    def byte(self):
        i = self.i
        self.i = i + 1
        return self.d[i] if i < len(self.d) else 0

    def below(self, n):
        return self.byte() % n

    def pick(self, seq):
        return seq[self.byte() % len(seq)]

    def flag(self, num=1, den=8):
        return self.byte() % den >= den - num


_OUTCOME = ["ok"] * 6 + ["err", "hang"]
_CONNECT = ["ok"] * 6 + ["err", "err", "hang"]
_OVERSHOOT = [0, 0, 1, 1024, 2 ** 18]


def decode_plan(data, max_timeout=3, max_conn=9):
    """bytes -> plan.  Delays are small absolute values or fractions of the timeout +- jitter, so that deadlines,
    hook ends and I/O completions collide and interleave.  Construction, never rejection."""
    t = Tape(data)
    timeout = 1 + t.below(max_timeout)
    T = timeout * 1024

    def delay():
        m = t.byte()
        if m < 144:
            return m % 7
        return max(0, (1 + m % 6) * T // 4 + (m // 6) % 5 - 2)

    def item():
        m = t.byte()
        if m % 8 == 6:
            return "eof"
        if m % 8 == 7:
            return "err"
        return bytes([m]) * (1 + m % 3)

    def reads(n):
        return [[delay(), item()] for _ in range(t.below(n + 1))]

    def drains(n):
        return [[delay() if t.flag(1, 2) else 0, t.pick(_OUTCOME)] for _ in range(t.below(n + 1))]

    overshoots = [t.pick(_OVERSHOOT) for _ in range(t.below(7))]
    client = {"reads": reads(5), "drains": drains(3), "eof_err": t.flag()}
    connects = [{"delay": delay(), "outcome": t.pick(_CONNECT), "reads": reads(3), "drains": drains(2),
                 "eof_err": t.flag(), "close_err": t.flag()} for _ in range(t.below(max_conn + 1))]
    hooks = [[delay() if t.flag(1, 2) else 0, t.flag(), delay() if t.flag(1, 3) else 0] for _ in range(t.below(15))]
    reactions = []
    for _ in range(t.below(11)):
        m = t.byte()
        if m % 8 == 7 and max_conn >= 5:  # burst of opens to one address: the per-address bound comes into play
            reactions.append([["open", (m >> 3) & 1]] * (5 + (m >> 4) % (max_conn - 4)))
            continue
        acts = []
        for _ in range(m % 5):
            k = t.byte()
            op = k % 8
            if op <= 2:
                acts.append(["open", (k >> 3) % 5 % 3])  # a, b twice as often as the UDP address
            elif op == 3:
                acts.append(["send", (k >> 3) % 10 - 1, 1 + (k >> 7)])
            elif op == 4:
                acts.append(["close", (k >> 3) % 10 - 1, bool(k >> 7)])
            elif op == 5:
                acts.append(["hook", bool(k >> 7)])
            elif op == 6:
                acts.append(["wakeup", delay()])
            else:
                acts.append(["send", -1, 1])
        reactions.append(acts)
    return {"timeout": timeout, "overshoots": overshoots, "client": client, "connects": connects, "hooks": hooks,
            "reactions": reactions, "eager": t.flag(1, 2), "client_udp": t.flag(1, 4),
            "rewrite": t.below(2) if t.flag(1, 4) else None}


def plan_strategy(max_timeout=3, max_conn=9, size=320):
    """Hypothesis strategy for plans: a fixed-size generated byte tape decoded by ``decode_plan`` (one draw per case
    keeps generation cheap; shrinking towards zero bytes shrinks towards the simplest plan)."""
    from hypothesis import strategies as st
    return st.binary(min_size=size, max_size=size).map(lambda b: decode_plan(b, max_timeout, max_conn))
