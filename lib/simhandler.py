"""The real ``ProxyConnectionHandler`` (mitmproxy/proxy/mode_servers.py -> server.ConnectionHandler) inside the
E4 simulator (lib/simloop.py), with a *scripted layer* and a *stub master*.

Plan (JSON-able; all delays in units of simloop.U = 2**-10 s, overshoots in units of 2**-20 s):
    {"timeout": seconds,                       tcp_timeout option
     "overshoots": [int...],                   one per clock jump, then 0
     "client": {"reads": [[delay, item]...], "drains": [[delay, outcome]...], "eof_err": bool},
     "connects": [{"delay", "outcome", "reads", "drains", "eof_err", "close_err"}...],   n-th open_connection call
     "hooks": [[duration, kill]...],           n-th hook handled by the (stub) addon manager
     "reactions": [[action...]...]}            n-th event delivered to the layer -> commands it returns
actions: ["open", addr_index] | ["send", conn_ref, nbytes] | ["close", conn_ref, half] | ["hook", blocking] |
         ["wakeup", delay] | ["log"]
conn_ref: -1 = client, k >= 0 = k-th server connection the layer created (modulo their number).

The scripted layer behaves like a legal layer: it never reuses a Server object, only sends on connections whose
state has CAN_WRITE, and only closes connections that are not CLOSED (real layers act on established connections).
"""
from __future__ import annotations

import asyncio
from dataclasses import dataclass

import simloop
from simloop import U

from mitmproxy import connection
from mitmproxy.connection import ConnectionState
from mitmproxy.proxy import commands, events, mode_servers, mode_specs, server_hooks

ADDRS = [("a.test", 80), ("b.test", 443)]
OV_U = 2.0 ** -20


@dataclass
class SimScriptedHook(commands.StartHook):
    """hook started by the scripted layer (stands for http_request, tcp_message, ...)"""
    name = "sim_scripted"
    data: object


_OPTS = None
_MODE = None


def options(timeout):
    global _OPTS, _MODE
    if _OPTS is None:
        from mitmproxy import options as moptions
        _OPTS = moptions.Options()
        _MODE = mode_specs.ProxyMode.parse("regular")
    if _OPTS.tcp_timeout != timeout:
        _OPTS.tcp_timeout = timeout
    return _OPTS, _MODE


class World:
    """everything observable about one simulated client connection"""

    def __init__(self, plan, loop, fault=None):
        self.plan = plan
        self.loop = loop
        self.net = simloop.Net(loop, plan.get("connects", ()), fault)
        self.trace = []  # (time, kind, ...)
        self.servers = []
        self.sidx = {}
        self.nhooks = 0
        self.nevents = 0
        self.handler = None
        self.returned = False

    def conn_index(self, conn):
        if conn is self.handler.client:
            return -1
        return self.sidx.get(id(conn))

    def log(self, *rec):
        self.trace.append((self.loop.time(),) + rec)

    # ---- stub master: `await master.addons.handle_lifecycle(hook)`
    @property
    def addons(self):
        return self

    async def handle_lifecycle(self, hook):
        k = self.nhooks
        self.nhooks += 1
        hooks = self.plan.get("hooks", ())
        dur, kill = hooks[k] if k < len(hooks) else (0, False)
        (data,) = hook.args()
        idx = None
        if isinstance(data, server_hooks.ServerConnectionHookData):
            idx = self.conn_index(data.server)
        self.log("hook", hook.name, idx, k)
        kind = self.net.point("hook:" + hook.name)
        try:
            if kill:
                if hook.name == "client_connected":
                    data.error = "killed by addon"
                elif hook.name == "server_connect":
                    data.server.error = "killed by addon"
            if dur:
                await asyncio.sleep(dur * U)
            self.net.after_point(kind)
        finally:
            self.log("hook_end", hook.name, idx, k)

    # ---- scripted layer: `layer.handle_event(event)`
    def handle_event(self, event):
        k = self.nevents
        self.nevents += 1
        conn = getattr(event, "connection", None)
        if isinstance(event, events.OpenConnectionCompleted):
            conn = event.command.connection
        self.log("event", type(event).__name__, self.conn_index(conn) if conn is not None else None,
                 getattr(event, "reply", None) if isinstance(event, events.OpenConnectionCompleted) else None)
        reactions = self.plan.get("reactions", ())
        out = []
        for a in (reactions[k] if k < len(reactions) else ()):
            op = a[0]
            if op == "open":
                s = connection.Server(address=ADDRS[a[1] % len(ADDRS)])
                self.sidx[id(s)] = len(self.servers)
                self.servers.append(s)
                out.append(commands.OpenConnection(s))
                self.log("cmd", "open", len(self.servers) - 1, a[1] % len(ADDRS))
            elif op == "send":
                c = self.ref(a[1])
                if c.state & ConnectionState.CAN_WRITE:
                    out.append(commands.SendData(c, b"x" * max(1, a[2])))
                    self.log("cmd", "send", self.conn_index(c))
            elif op == "close":
                c = self.ref(a[1])
                if c.state is not ConnectionState.CLOSED:
                    if a[2]:
                        out.append(commands.CloseTcpConnection(c, half_close=True))
                    else:
                        out.append(commands.CloseConnection(c))
                    self.log("cmd", "close", self.conn_index(c), bool(a[2]))
            elif op == "hook":
                h = SimScriptedHook(k)
                h.blocking = bool(a[1])
                out.append(h)
            elif op == "wakeup":
                out.append(commands.RequestWakeup(a[1] * U))
            elif op == "log":
                out.append(commands.Log("sim"))
        return out

    def ref(self, r):
        if r < 0 or not self.servers:
            return self.handler.client
        return self.servers[r % len(self.servers)]


class Handler(mode_servers.ProxyConnectionHandler):
    """the real handler; only observation is added"""
    world: World

    async def on_timeout(self):
        self.world.log("timeout")
        await super().on_timeout()


def run_plan(plan, fault=None, max_iter=60_000):
    """Run handle_client for one plan (optionally with one injected fault).  Returns (world, outcome)."""
    box = {}

    def setup(loop):
        w = World(plan, loop, fault)
        box["w"] = w
        return simloop.patched(loop, w.net)

    async def main(loop):
        w = box["w"]
        c = plan.get("client", {})
        r, wr = w.net.make_client(c.get("reads", ()), c.get("drains", ()), c.get("eof_err", False))
        opts, mode = options(plan.get("timeout", 10))
        h = Handler(w, r, wr, opts, mode)
        h.world = w
        w.handler = h
        h.layer = w
        await h.handle_client()
        w.returned = True
        w.log("returned")

    out = simloop.run(main, overshoots=[x * OV_U for x in plan.get("overshoots", ())], max_iter=max_iter, setup=setup)
    return box["w"], out


# ---------------------------------------------------------------------------------------------- plan generator
def plan_strategy(max_timeout=3, max_conn=9):
    """Hypothesis strategy for plans.  Delays are drawn relative to the timeout (fractions of it +- jitter) and
    small absolute values, so that deadlines, hook ends and I/O completions collide and interleave."""
    from hypothesis import strategies as st

    def build(timeout):
        T = timeout * 1024

        small = st.integers(0, 6)
        frac = st.tuples(st.integers(1, 6), st.integers(-2, 2)).map(lambda p: max(0, p[0] * T // 4 + p[1]))
        delay = st.one_of(small, small, frac)
        item = st.one_of(st.binary(min_size=1, max_size=3), st.binary(min_size=1, max_size=3),
                         st.sampled_from(["eof", "err"]))
        reads = st.lists(st.tuples(delay, item), max_size=5)
        outcome = st.sampled_from(["ok", "ok", "ok", "ok", "ok", "ok", "err", "hang"])
        drains = st.lists(st.tuples(st.one_of(st.just(0), delay), outcome), max_size=3)
        flag = st.sampled_from([False] * 7 + [True])
        conn = st.fixed_dictionaries({
            "delay": delay,
            "outcome": st.sampled_from(["ok"] * 6 + ["err", "err", "hang"]),
            "reads": reads, "drains": drains, "eof_err": flag, "close_err": flag})
        hook = st.tuples(st.one_of(st.just(0), st.just(0), delay), flag)
        ref = st.integers(-1, 8)
        action = st.one_of(
            st.tuples(st.just("open"), st.integers(0, 1)),
            st.tuples(st.just("open"), st.integers(0, 1)),
            st.tuples(st.just("send"), ref, st.integers(1, 4)),
            st.tuples(st.just("close"), ref, st.booleans()),
            st.tuples(st.just("hook"), st.booleans()),
            st.tuples(st.just("wakeup"), delay),
        )
        burst = st.tuples(st.integers(min(5, max_conn), max_conn), st.integers(0, 1)).map(lambda p: [("open", p[1])] * p[0])
        reaction = st.one_of(st.lists(action, max_size=4), st.lists(action, max_size=4), st.lists(action, max_size=2),
                             burst)
        return st.fixed_dictionaries({
            "timeout": st.just(timeout),
            "overshoots": st.lists(st.sampled_from([0, 0, 1, 1024, 2 ** 18]), max_size=6),
            "client": st.fixed_dictionaries({"reads": reads, "drains": drains, "eof_err": flag}),
            "connects": st.lists(conn, max_size=max_conn),
            "hooks": st.lists(hook, max_size=14),
            "reactions": st.lists(reaction, max_size=10),
        })

    return st.integers(1, max_timeout).flatmap(build)
