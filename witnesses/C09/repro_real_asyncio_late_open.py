"""Stand-alone reproduction (real asyncio, real sockets, real time) of the C09 finding "connection opened after
client_disconnected": a half-closed client is reset, the write error cancels the client handler (the layer is never told:
the connection state stays CAN_WRITE), handle_client tears down, and a hook that was pending completes afterwards; the
layer - which still believes the client is there - continues its flow and opens an upstream connection that nobody owns.
Run: /venv/bin/python witnesses/C09/repro_real_asyncio_late_open.py [eager]"""
import asyncio
import logging
import sys
from dataclasses import dataclass

from mitmproxy import connection, options
from mitmproxy.proxy import commands, events, mode_specs, server

logging.disable(logging.CRITICAL)


@dataclass
class RequestLikeHook(commands.StartHook):
    name = "request_like"
    data: object


class Handler(server.LiveConnectionHandler):
    def __init__(self, r, w, trace):
        super().__init__(r, w, options.Options(), mode_specs.ProxyMode.parse("regular"))
        self.trace = trace

    async def handle_hook(self, hook):
        self.trace.append(hook.name)
        if hook.name == "request_like":  # async addon / intercept: 1 s
            await asyncio.sleep(1.0)


class Layer:
    """relays upstream data to the client; a client message starts a hook, after the hook the 'request' is
    forwarded over a new upstream connection (what HttpLayer does after the request hook)"""

    def __init__(self, client, addr):
        self.client, self.addr = client, addr

    def handle_event(self, ev):
        if isinstance(ev, events.Start):
            return [commands.OpenConnection(connection.Server(address=self.addr))]
        if isinstance(ev, events.DataReceived) and ev.connection is self.client:
            return [RequestLikeHook(None)]
        if isinstance(ev, events.DataReceived):
            return [commands.SendData(self.client, ev.data)] if self.client.state & connection.ConnectionState.CAN_WRITE else []
        if isinstance(ev, events.HookCompleted):
            return [commands.OpenConnection(connection.Server(address=self.addr))]
        return []


async def main():
    if "eager" in sys.argv:
        asyncio.get_running_loop().set_task_factory(asyncio.eager_task_factory)
    upstream_open, t0 = [], asyncio.get_running_loop().time()
    now = lambda: round(asyncio.get_running_loop().time() - t0, 2)
    log = []

    async def upstream(r, w):
        upstream_open.append(w)
        log.append("%.2f upstream: connection accepted" % now())
        try:
            for _ in range(12):  # a chatty upstream: a byte every 0.1 s
                w.write(b"y")
                await w.drain()
                await asyncio.sleep(0.1)
            await r.read()
        except OSError:
            pass
        upstream_open.remove(w)
        w.close()

    up = await asyncio.start_server(upstream, "127.0.0.1", 0)
    addr = up.sockets[0].getsockname()[:2]
    trace = []
    done = asyncio.Event()

    async def handle(r, w):
        h = Handler(r, w, trace)
        h.layer = Layer(h.client, addr)
        await h.handle_client()
        log.append("%.2f proxy: handle_client returned" % now())
        done.set()

    proxy = await asyncio.start_server(handle, "127.0.0.1", 0)
    r, w = await asyncio.open_connection(*proxy.sockets[0].getsockname()[:2])
    w.write(b"x")
    w.write_eof()  # half-close: request sent, FIN
    await asyncio.sleep(0.3)
    w.transport.abort()  # RST
    await done.wait()
    await asyncio.sleep(1.5)
    print("\n".join(log))
    print("hooks:", " ".join(trace))
    print("upstream sockets still open 1.5 s after handle_client returned:", len(upstream_open))
    for x in list(upstream_open):
        x.close()
    proxy.close()
    up.close()

asyncio.run(main())
