"""Stand-alone reproduction (real asyncio loop with asyncio.eager_task_factory as installed by Master.run, real sockets)
of the two C09 findings that need eager task start.  Run: /venv/bin/python witnesses/C09/repro_real_asyncio_eager.py"""
import asyncio
import logging
from dataclasses import dataclass

from mitmproxy import options
from mitmproxy.proxy import commands, events, mode_specs, server

logging.disable(logging.CRITICAL)


@dataclass
class DemoHook(commands.StartHook):
    name = "demo"
    data: object


class Handler(server.LiveConnectionHandler):
    def __init__(self, r, w, trace, slow_connected):
        super().__init__(r, w, options.Options(), mode_specs.ProxyMode.parse("regular"))
        self.trace, self.slow_connected = trace, slow_connected

    async def handle_hook(self, hook):
        self.trace.append(hook.name)
        if hook.name == "client_connected":
            await asyncio.sleep(self.slow_connected)  # async addon; meanwhile the client's bytes / FIN arrive


class KillAfterHook:
    """like the HTTP layer when an addon kills a flow: first data -> hook, hook completed -> close the client"""
    def __init__(self, client):
        self.client = client
        self.first = True

    def handle_event(self, ev):
        if isinstance(ev, events.DataReceived) and self.first:
            self.first = False
            return [DemoHook(None)]
        if isinstance(ev, events.HookCompleted):
            return [commands.CloseConnection(self.client)]
        return []


class CloseOnEof:
    """like NextLayer: the client went away before anything was decided -> close the client connection"""
    def __init__(self, client):
        self.client = client

    def handle_event(self, ev):
        if isinstance(ev, events.ConnectionClosed):
            return [commands.CloseConnection(self.client)]
        return []


async def scenario(title, make_layer, payload):
    trace, res = [], {}
    done = asyncio.Event()

    async def handle(r, w):
        h = Handler(r, w, trace, 0.3)
        h.layer = make_layer(h.client)
        try:
            await h.handle_client()
            res["handle_client"] = "returned"
        except Exception as e:
            res["handle_client"] = "raised %r" % type(e).__name__
        res["client writer closed"] = w.is_closing()
        res["transports left"] = len(h.transports)
        done.set()

    proxy = await asyncio.start_server(handle, "127.0.0.1", 0)
    r, w = await asyncio.open_connection(*proxy.sockets[0].getsockname()[:2])
    if payload:
        w.write(payload)
        await w.drain()
    else:
        w.close()
    await asyncio.wait_for(done.wait(), 5)
    print("%s\n   hooks: %s\n   %s" % (title, " ".join(trace), res))
    w.close()
    proxy.close()


async def main():
    asyncio.get_running_loop().set_task_factory(asyncio.eager_task_factory)
    await scenario("F  flow killed (client closed by the layer after a hook) while more client data is buffered:\n"
                   "   the client handler is cancelled while it waits for _server_event_lock -> no clean-up",
                   KillAfterHook, b"x" * 200_000)
    await scenario("G  client connects and closes at once; layer closes the client on ConnectionClosed:\n"
                   "   handle_connection finishes inside create_task -> KeyError in handle_client, no client_disconnected",
                   CloseOnEof, b"")

asyncio.run(main())
