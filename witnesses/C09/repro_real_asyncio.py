"""Stand-alone reproduction of the C09 findings against the real code: real asyncio loop, real sockets, real time,
no simulator.  Run: /venv/bin/python witnesses/C09/repro_real_asyncio.py"""
import asyncio
import logging

from mitmproxy import connection, options
from mitmproxy.proxy import commands, events, mode_specs, server

logging.disable(logging.CRITICAL)


class Layer:
    """opens `n` connections to `addr` on Start, closes the client when the client sends a byte"""

    def __init__(self, client, addr, n):
        self.client, self.addr, self.n = client, addr, n

    def handle_event(self, ev):
        if isinstance(ev, events.Start):
            return [commands.OpenConnection(connection.Server(address=self.addr)) for _ in range(self.n)]
        if isinstance(ev, events.DataReceived) and ev.connection is self.client:
            return [commands.CloseConnection(self.client)]
        return []


class Handler(server.LiveConnectionHandler):
    def __init__(self, r, w, slow, trace):
        super().__init__(r, w, options.Options(), mode_specs.ProxyMode.parse("regular"))
        self.slow, self.trace = slow, trace

    async def handle_hook(self, hook):
        self.trace.append(hook.name)
        if hook.name == self.slow:  # an async addon taking 0.5 s for this hook
            await asyncio.sleep(0.5)


async def scenario(title, slow, n):
    upstream_open = []

    async def upstream(r, w):
        upstream_open.append(w)
        await r.read()  # until the proxy closes the connection
        upstream_open.remove(w)
        w.close()

    up = await asyncio.start_server(upstream, "127.0.0.1", 0)
    addr = up.sockets[0].getsockname()[:2]
    trace = []
    done = asyncio.Event()

    async def handle(r, w):
        h = Handler(r, w, slow, trace)
        h.layer = Layer(h.client, addr, n)
        await h.handle_client()
        done.set()

    proxy = await asyncio.start_server(handle, "127.0.0.1", 0)
    r, w = await asyncio.open_connection(*proxy.sockets[0].getsockname()[:2])
    await asyncio.sleep(0.2)
    w.write(b"x")  # -> layer closes the client connection -> handle_client tears everything down
    await done.wait()
    await asyncio.sleep(0.8)
    print("%s\n   hooks: %s\n   upstream sockets still open after handle_client returned: %d" % (title, " ".join(trace), len(upstream_open)))
    w.close()
    for x in list(upstream_open):
        x.close()
    proxy.close()
    up.close()


async def main():
    await scenario("A  client goes away during a slow server_connect hook: neither server_connected nor server_connect_error",
                   "server_connect", 1)
    await scenario("B  6 connections to one address, client goes away while the 6th waits for a slot: 6th has no outcome",
                   None, 6)
    await scenario("C  client goes away during a slow server_connected hook: no server_disconnected, upstream socket never closed",
                   "server_connected", 1)

asyncio.run(main())
