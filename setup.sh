#!/bin/bash
# Offline setup: hypothesis is already in /venv (the repository's tests use it); atheris goes to ./.deps
cd "$(dirname "$(readlink -f "$0")")"
/venv/bin/python -c "import hypothesis" 2>/dev/null || /venv/bin/pip install --no-index --find-links /opt/veriftools/wheels hypothesis >/dev/null 2>&1
if [ ! -d .deps/atheris ]; then
  /venv/bin/pip install --no-index --find-links /opt/veriftools/wheels --target .deps atheris >/dev/null 2>&1 || echo "atheris not installed (fuzz targets will be skipped)"
fi
/venv/bin/python -c "import hypothesis; print('hypothesis', hypothesis.__version__)" 2>&1 | grep -v WARNING
exit 0
